#!/bin/sh
# offline setup: build the replay crate (witness scenarios against the real engine.rs), warm verus
set -e
cd "$(dirname "$0")"
cp /repo/Cargo.lock replay/Cargo.lock 2>/dev/null || true
(cd replay && CARGO_NET_OFFLINE=true cargo build --release --offline >/dev/null 2>&1) || echo "replay crate build failed (witness replay unavailable)"
python3 tools/extract.py --out .cache/warm >/dev/null 2>&1 || true
verus .cache/warm/woven.rs --no-verify >/dev/null 2>&1 || true
rm -rf .cache/warm
exit 0
