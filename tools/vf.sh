#!/bin/bash
# dev helper: extract into a scratch dir and verify one function (errors only)
# usage: tools/vf.sh <function-substring> [extra verus args]
D=${VF_DIR:-/tmp/vf}
mkdir -p $D
F=$1; shift
python3 "$(dirname "$0")/extract.py" --repo ${VERIF_REPO:-/repo} --out $D >/dev/null || exit 2
cd $D && verus woven.rs --triggers-mode silent --multiple-errors 20 --rlimit 800 --verify-root --verify-function "$F" --error-format=json "$@" 2>&1 | python3 -c "
import sys,json
for l in sys.stdin:
    l=l.strip()
    if not l.startswith('{'):
        if 'verification results' in l: print(l)
        continue
    d=json.loads(l)
    if d.get('level')=='error': print(d.get('rendered') or d['message'])
"
