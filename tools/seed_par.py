#!/usr/bin/env python3
"""Run stored seeded changes against every claimed check, several seeds in parallel.

Each seed gets its own scratch copy of the repository's sources (VERIF_REPO), its own cache,
evidence and replay directories (VERIF_CACHE / VERIF_EVIDENCE / VERIF_REPLAYS) under a scratch
root, all removed afterwards.  /repo itself is never touched.

usage: seed_par.py [-j N] [--root DIR] [seed ...]      (default: every directory under seeded/)
prints one line per seed:  SEED <name> violations=[..] undecided=[..] first-reason
and writes seeded/<name>/last_run.json
"""
import argparse
import json
import os
import re
import shutil
import subprocess
import sys
from concurrent.futures import ThreadPoolExecutor

V = os.path.dirname(os.path.dirname(os.path.abspath(__file__)))


SNAP = [None]


def snapshot(root):
    """the checks run from a copy of /verif's machinery taken at start, so that editing /verif meanwhile
    does not disturb a run"""
    snap = os.path.join(root, "verif_snapshot")
    shutil.rmtree(snap, ignore_errors=True)
    os.makedirs(snap)
    for d in ("contracts", "tools"):
        shutil.copytree(os.path.join(V, d), os.path.join(snap, d), ignore=shutil.ignore_patterns("__pycache__"))
    shutil.copytree(os.path.join(V, "replay"), os.path.join(snap, "replay"), ignore=shutil.ignore_patterns("target"))
    shutil.copytree(os.path.join(V, "kani"), os.path.join(snap, "kani"), ignore=shutil.ignore_patterns("target"))
    for f in ("check", "known_findings.jsonl", "MANIFEST.json"):
        shutil.copy(os.path.join(V, f), os.path.join(snap, f))
    SNAP[0] = snap


KIND = ["seeded"]


def run_seed(name, root):
    sd = os.path.join(V, KIND[0], name)
    work = os.path.join(root, "sr_" + name)
    shutil.rmtree(work, ignore_errors=True)
    os.makedirs(work)
    repo = os.path.join(work, "repo")
    try:
        subprocess.run(["git", "-C", "/repo", "worktree", "prune"], capture_output=True)
        # plain copy of the tracked files at HEAD (no worktree registration needed)
        os.makedirs(repo)
        ar = subprocess.run("git -C /repo archive HEAD | tar -x -C %s" % repo, shell=True, capture_output=True, text=True)
        if ar.returncode != 0:
            return {"seed": name, "error": "archive failed: " + ar.stderr[-300:]}
        subprocess.run(["git", "init", "-q"], cwd=repo, capture_output=True)
        ap = subprocess.run(["git", "apply", os.path.join(sd, "patch.diff")], cwd=repo, capture_output=True, text=True)
        if ap.returncode != 0:
            return {"seed": name, "error": "patch does not apply: " + ap.stderr[-300:]}
        env = dict(os.environ, VERIF_REPO=repo, VERIF_CACHE=os.path.join(work, "cache"),
                   VERIF_EVIDENCE=os.path.join(work, "evidence"), VERIF_REPLAYS=os.path.join(work, "replays"))
        props = [c["property_id"] for c in json.load(open(os.path.join(SNAP[0], "MANIFEST.json")))["checks"]]
        res = {"seed": name, "violations": {}, "undecided": {}, "ok": []}
        for p in props:
            r = subprocess.run([os.path.join(SNAP[0], "check"), p, "quick"], env=env, capture_output=True, text=True)
            lines = [l for l in r.stdout.split("\n") if l.startswith(("VIOLATION", "UNDECIDED"))]
            if r.returncode == 1:
                res["violations"][p] = [re.sub(r"replay=\S+ ", "", l)[:300] for l in lines if l.startswith("VIOLATION")]
            elif r.returncode == 2:
                res["undecided"][p] = [l[:300] for l in lines][:1]
            elif r.returncode == 0:
                res["ok"].append(p)
            else:
                res["undecided"][p] = ["exit %d: %s" % (r.returncode, (r.stderr or r.stdout)[-200:])]
        return res
    finally:
        shutil.rmtree(work, ignore_errors=True)


def main():
    ap = argparse.ArgumentParser()
    ap.add_argument("-j", type=int, default=4)
    ap.add_argument("--root", default="/tmp/verif_seedruns")
    ap.add_argument("--dir", default="seeded", help="seeded (property-breaking changes) or benign (behaviour-preserving ones)")
    ap.add_argument("seeds", nargs="*")
    a = ap.parse_args()
    KIND[0] = a.dir
    a.root = a.root + "_" + a.dir
    seeds = a.seeds or sorted(os.listdir(os.path.join(V, a.dir)))
    os.makedirs(a.root, exist_ok=True)
    snapshot(a.root)
    with ThreadPoolExecutor(max_workers=a.j) as ex:
        for res in ex.map(lambda n: run_seed(n, a.root), seeds):
            name = res["seed"]
            if "error" in res:
                print("SEED %s ERROR %s" % (name, res["error"]))
                continue
            json.dump(res, open(os.path.join(V, KIND[0], name, "last_run.json"), "w"), indent=1)
            reason = ""
            for p, l in res["undecided"].items():
                reason = (l[0] if l else "")[:160]
                break
            obl = sorted(set(re.sub(r".*obligation=", "", x).split(" ")[0] for ls in res["violations"].values() for x in ls))
            print("SEED %s violations=%s undecided=%d %s %s" % (name, sorted(res["violations"]), len(res["undecided"]),
                                                               obl[:4], reason))
            sys.stdout.flush()
    shutil.rmtree(SNAP[0], ignore_errors=True)
    try:
        os.rmdir(a.root)
    except OSError:
        pass


if __name__ == "__main__":
    main()
