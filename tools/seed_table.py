#!/usr/bin/env python3
"""print the markdown table of DESIGN.md §9 from seeded/*/meta.json (+ last_run.json) and benign/*/last_run.json"""
import json, os
V = os.path.dirname(os.path.dirname(os.path.abspath(__file__)))
rows = []
for n in sorted(os.listdir(os.path.join(V, "seeded"))):
    d = os.path.join(V, "seeded", n)
    m = json.load(open(os.path.join(d, "meta.json")))
    lr = os.path.join(d, "last_run.json")
    r = json.load(open(lr)) if os.path.exists(lr) else None
    prop = m.get("property_broken", "?")
    if r is None:
        verdict, obl = "not run", ""
    elif r["violations"]:
        own = prop in r["violations"]
        others = [p for p in sorted(r["violations"]) if p != prop]
        verdict = ("**%s**" % prop if own else "not %s" % prop) + (" (+%s)" % ", ".join(others) if others else "")
        ob = sorted(set(x.split("obligation=")[-1].split(" ")[0] for v in r["violations"].values() for x in v))
        pref = [o for o in ob if prop in o or "ensures" in o or "inv" in o] or ob
        obl = "`%s`" % pref[0].replace("PPGEvaluator::", "")[:90]
    else:
        reason = ""
        for v in r["undecided"].values():
            reason = (v[0] if v else "")
            break
        reason = reason.split("reason=")[-1][:110]
        verdict, obl = "UNDECIDED (exit 2)", reason.replace("|", "/")
    rows.append("| %s | %s | %s | %s | %s |" % (n, prop, m.get("change", "")[:150].replace("|", "/"), verdict, obl))
print("| seed | breaks | change | verdict of the checks | first failing obligation / reason |")
print("|------|--------|--------|-----------------------|-----------------------------------|")
print("\n".join(rows))
bd = os.path.join(V, "benign")
if os.path.isdir(bd):
    print()
    print("| benign change | verdict |")
    print("|---------------|---------|")
    for n in sorted(os.listdir(bd)):
        lr = os.path.join(bd, n, "last_run.json")
        if not os.path.exists(lr):
            continue
        r = json.load(open(lr))
        if r["violations"]:
            v = "**FALSE ALARM** %s" % sorted(r["violations"])
        elif r["undecided"]:
            v = "UNDECIDED (exit 2) x%d" % len(r["undecided"])
        else:
            v = "OK (all %d checks)" % len(r["ok"])
        print("| %s | %s |" % (n, v))
