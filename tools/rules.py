"""Extraction rules R1..R11 of DESIGN.md §3.1, as text->text passes over one item.

Every pass is mechanical and either succeeds or raises ExtractError (-> exit 2).
Each pass also appends a record to `log` so the evidence can say what was changed.
"""
import re
from rstok import (tokenize, match_close, text, next_sig, prev_sig, ExtractError, OPEN)

LOG_MACROS = ("debug", "info", "warn", "error", "dbg", "trace")


def _find_macro_calls(toks, names):
    """yield (k_ident, k_open, k_close) for NAME!(...) / NAME!{...} / NAME![...]"""
    out = []
    k = 0
    while k < len(toks):
        t = toks[k]
        if t.kind == "ident" and t.text in names:
            j = next_sig(toks, k)
            if j < len(toks) and toks[j].text == "!":
                o = next_sig(toks, j)
                if o < len(toks) and toks[o].text in OPEN:
                    # not a macro_rules definition
                    p = prev_sig(toks, k)
                    if not (p >= 0 and toks[p].text == "!"):
                        c = match_close(toks, o)
                        out.append((k, o, c))
                        k = c + 1
                        continue
        k += 1
    return out


def split_args(toks, a, b):
    """split toks[a:b] at top-level commas; returns list of (a,b) ranges (may be empty tail)"""
    args = []
    k = a
    start = a
    while k < b:
        t = toks[k]
        if t.kind == "punct" and t.text in OPEN:
            k = match_close(toks, k) + 1
            continue
        if t.kind == "punct" and t.text == ",":
            args.append((start, k))
            start = k + 1
        k += 1
    if text(toks, start, b).strip():
        args.append((start, b))
    return args


# ---------------------------------------------------------------- R2 local macros
class MacroDef:
    def __init__(self, name, params, body, statement_like):
        self.name, self.params, self.body, self.statement_like = name, params, body, statement_like


def parse_macro_def(src):
    """src: full text of `macro_rules! name { (matcher) => { body }; }` with a single arm."""
    toks = tokenize(src)
    k = 0
    while toks[k].text != "macro_rules":
        k += 1
    k = next_sig(toks, k)  # !
    k = next_sig(toks, k)
    name = toks[k].text
    o = next_sig(toks, k)
    c = match_close(toks, o)
    # inside: (matcher) => {body} ;?
    m_o = next_sig(toks, o)
    if toks[m_o].text != "(":
        raise ExtractError("macro %s: matcher not parenthesised" % name)
    m_c = match_close(toks, m_o)
    params = []
    j = m_o + 1
    while j < m_c:
        if toks[j].text == "$":
            p = toks[next_sig(toks, j)].text
            col = next_sig(toks, next_sig(toks, j))
            frag = toks[next_sig(toks, col)].text
            if frag != "expr":
                raise ExtractError("macro %s: only expr fragments supported" % name)
            params.append(p)
        j += 1
    arrow = next_sig(toks, m_c)
    if toks[arrow].text != "=>":
        raise ExtractError("macro %s: expected =>" % name)
    b_o = next_sig(toks, arrow)
    b_c = match_close(toks, b_o)
    rest = next_sig(toks, b_c)
    if toks[rest].text == ";":
        rest = next_sig(toks, rest)
    if rest != c:
        raise ExtractError("macro %s: more than one arm" % name)
    body = text(toks, b_o + 1, b_c)
    # expression-like iff body is a single block `{ ... }`
    bt = tokenize(body)
    f = next_sig(bt, -1)
    statement_like = not (bt[f].text == "{" and next_sig(bt, match_close(bt, f)) >= len(bt))
    return MacroDef(name, params, body, statement_like)


def _needs_paren(arg):
    toks = tokenize(arg)
    k = 0
    while k < len(toks):
        t = toks[k]
        if t.kind == "punct" and t.text in OPEN:
            k = match_close(toks, k) + 1
            continue
        if t.kind == "punct" and t.text not in ("::", ".", "&"):
            return True
        if t.kind == "ident" and t.text == "as":
            return True
        k += 1
    return False


def _is_mut_ref_param(fn_src, name):
    """is `name` declared as a `&mut` parameter in the signature of fn_src?"""
    toks = tokenize(fn_src)
    for k, t in enumerate(toks):
        if t.kind == "ident" and t.text == "fn":
            o = next_sig(toks, next_sig(toks, k))
            while toks[o].text != "(":
                if toks[o].text == "<":
                    # skip generics
                    depth = 1
                    while depth:
                        o += 1
                        if toks[o].text == "<":
                            depth += 1
                        elif toks[o].text == ">":
                            depth -= 1
                o = next_sig(toks, o)
            c = match_close(toks, o)
            for (a, b) in split_args(toks, o + 1, c):
                ptxt = text(toks, a, b).strip()
                m = re.match(r"^(?:mut\s+)?(\w+)\s*:\s*(.*)$", ptxt, re.S)
                if m and m.group(1) == name:
                    return m.group(2).strip().startswith("&mut")
            return False
    return False


def expand_local_macros(src, macros, log, outline=None):
    """R2: expand invocations of the crate-local macro_rules by parameter substitution.
    R2b: macros listed in `outline` become calls to a generated function whose body is the macro
    body (arguments of `&mut` parameter types are passed by mutable (re)borrow)."""
    names = set(macros)
    outline = outline or {}
    for _round in range(10):
        toks = tokenize(src)
        calls = _find_macro_calls(toks, names)
        if not calls:
            return src
        out = []
        last = 0
        for (k, o, c) in calls:
            md = macros[toks[k].text]
            args = [text(toks, a, b).strip() for (a, b) in split_args(toks, o + 1, c)]
            if len(args) != len(md.params):
                raise ExtractError("macro %s: arity mismatch" % md.name)
            if md.name in outline:
                ptypes = outline[md.name]["params"]
                cargs = []
                for pn, a in zip(md.params, args):
                    ty = ptypes[pn]
                    if ty.startswith("&mut"):
                        if re.fullmatch(r"\w+", a) and _is_mut_ref_param(src, a):
                            cargs.append("&mut *" + a)
                        else:
                            cargs.append("&mut " + a)
                    else:
                        cargs.append(a)
                n2 = next_sig(toks, c)
                endk = n2 + 1 if (n2 < len(toks) and toks[n2].text == ";") else c + 1
                out.append(text(toks, last, k))
                out.append("verif_macro_%s(%s);" % (md.name, ", ".join(cargs)))
                last = endk
                log.append({"rule": "R2b", "macro": md.name})
                continue
            amap = dict(zip(md.params, args))
            bt = tokenize(md.body)
            res = []
            j = 0
            while j < len(bt):
                if bt[j].text == "$" and j + 1 < len(bt) and bt[j + 1].kind == "ident":
                    a = amap.get(bt[j + 1].text)
                    if a is None:
                        raise ExtractError("macro %s: unknown $%s" % (md.name, bt[j + 1].text))
                    res.append("(" + a + ")" if _needs_paren(a) else a)
                    j += 2
                else:
                    res.append(bt[j].text)
                    j += 1
            exp = "".join(res)
            if md.statement_like:
                # hygiene: locals of the expansion do not leak -> wrap in a block
                exp = "{" + exp + "}"
                # swallow the `;` of `name!(..);`
                n2 = next_sig(toks, c)
                endk = c + 1
                if n2 < len(toks) and toks[n2].text == ";":
                    endk = n2 + 1
            else:
                endk = c + 1
            out.append(text(toks, last, k))
            out.append(exp)
            last = endk
            log.append({"rule": "R2", "macro": md.name})
        out.append(text(toks, last, len(toks)))
        src = "".join(out)
    raise ExtractError("macro expansion did not reach a fixpoint")


# ---------------------------------------------------------------- R1 logging
def drop_log_macros(src, log):
    toks = tokenize(src)
    calls = _find_macro_calls(toks, set(LOG_MACROS))
    if not calls:
        return src
    out = []
    last = 0
    for (k, o, c) in calls:
        n2 = next_sig(toks, c)
        out.append(text(toks, last, k))
        if n2 < len(toks) and toks[n2].text == ";":
            last = n2 + 1
        else:
            out.append("()")
            last = c + 1
        log.append({"rule": "R1", "macro": toks[k].text})
    out.append(text(toks, last, len(toks)))
    return "".join(out)


# ---------------------------------------------------------------- R3 panics / asserts
def panics_to_obligations(src, log, sites):
    toks = tokenize(src)
    calls = _find_macro_calls(toks, {"panic", "assert", "assert_ne", "assert_eq", "unreachable",
                                     "unimplemented", "todo"})
    out = []
    last = 0
    for (k, o, c) in calls:
        name = toks[k].text
        args = [text(toks, a, b).strip() for (a, b) in split_args(toks, o + 1, c)]
        out.append(text(toks, last, k))
        if name in ("panic", "unreachable", "unimplemented", "todo"):
            rep = "verif_panic()"
        elif name == "assert":
            rep = "verif_assert(%s)" % args[0]
        elif name == "assert_ne":
            # core's assert_ne! expands to `if *left == *right { panic }`: it calls `==`, not `!=`
            rep = "verif_assert(!((%s) == (%s)))" % (args[0], args[1])
        else:
            rep = "verif_assert((%s) == (%s))" % (args[0], args[1])
        out.append(rep)
        sites.append({"kind": name, "text": re.sub(r"\s+", " ", text(toks, k, c + 1))[:120]})
        log.append({"rule": "R3", "macro": name})
        last = c + 1
    out.append(text(toks, last, len(toks)))
    src = "".join(out)
    # .expect("..") -> .unwrap()
    toks = tokenize(src)
    out = []
    last = 0
    k = 0
    while k < len(toks):
        t = toks[k]
        if t.kind == "ident" and t.text == "expect":
            p = prev_sig(toks, k)
            o = next_sig(toks, k)
            if p >= 0 and toks[p].text == "." and toks[o].text == "(":
                c = match_close(toks, o)
                out.append(text(toks, last, k))
                out.append("unwrap()")
                last = c + 1
                log.append({"rule": "R3", "macro": "expect"})
                sites.append({"kind": "expect", "text": re.sub(r"\s+", " ", text(toks, k, c + 1))[:120]})
                k = c + 1
                continue
        k += 1
    out.append(text(toks, last, len(toks)))
    return "".join(out)


# ---------------------------------------------------------------- R13 clone_from
def clone_from_calls(src, log):
    """R13: `A.clone_from(B);` -> `A = (B).clone();`  (Verus: "does not yet support clone_from"; the Clone
    contract of std defines a.clone_from(&b) as functionally a = b.clone())."""
    for _ in range(20):
        toks = tokenize(src)
        hit = None
        for k, t in enumerate(toks):
            if t.kind == "ident" and t.text == "clone_from":
                p = prev_sig(toks, k)
                o = next_sig(toks, k)
                if p < 0 or toks[p].text != "." or toks[o].text != "(":
                    continue
                c = match_close(toks, o)
                semi = next_sig(toks, c)
                if semi >= len(toks) or toks[semi].text != ";":
                    raise ExtractError("R13: clone_from not used as a statement")
                # receiver: path of idents / `.` / `self` / index brackets back to the statement start
                j = prev_sig(toks, p)
                start = j
                while True:
                    if toks[start].text == "]":
                        d = 1
                        q = start
                        while d:
                            q -= 1
                            if toks[q].text == "]":
                                d += 1
                            elif toks[q].text == "[":
                                d -= 1
                        start = prev_sig(toks, q)
                        continue
                    pj = prev_sig(toks, start)
                    if pj >= 0 and toks[pj].text in (".", "::"):
                        start = prev_sig(toks, pj)
                    else:
                        break
                pb = prev_sig(toks, start)
                if pb >= 0 and toks[pb].text not in (";", "{", "}"):
                    raise ExtractError("R13: clone_from receiver is not a plain place expression")
                hit = (start, p, o, c, semi)
                break
        if not hit:
            return src
        start, p, o, c, semi = hit
        recv = text(toks, start, p).strip()
        arg = text(toks, o + 1, c).strip()
        src = text(toks, 0, start) + "%s = (%s).clone();" % (recv, arg) + text(toks, semi + 1, len(toks))
        log.append({"rule": "R13", "receiver": recv})
    raise ExtractError("R13 did not converge")


# ---------------------------------------------------------------- R15 or-pattern + guard
def split_or_guard_arms(src, log):
    """R15: a match arm `P1 | P2 | .. if G => B` becomes `P1 if G => B, P2 if G => B, ..` (Verus: "match arm containing
    both an or-pattern (|) and a match-guard" is not supported).  Same arms in the same order, the guard is
    evaluated for the alternative that matched, the body text is repeated."""
    for _ in range(50):
        toks = tokenize(src)
        hit = None
        for k, t in enumerate(toks):
            if not (t.kind == "ident" and t.text == "match"):
                continue
            # scrutinee: up to the first `{` outside parentheses / brackets
            j = next_sig(toks, k)
            d = 0
            while j < len(toks):
                x = toks[j].text
                if x in ("(", "["):
                    d += 1
                elif x in (")", "]"):
                    d -= 1
                elif x == "{" and d == 0:
                    break
                elif x == ";" and d == 0:
                    j = len(toks)
                    break
                j = next_sig(toks, j)
            if j >= len(toks):
                continue
            mo, mc = j, match_close(toks, j)
            a = next_sig(toks, mo)
            while a < mc:
                # pattern [if guard] => body [,]
                d = 0
                q = a
                bars, guard_at, arrow = [], None, None
                while q < mc:
                    x = toks[q].text
                    if x in ("(", "[", "{"):
                        d += 1
                    elif x in (")", "]", "}"):
                        d -= 1
                    elif d == 0 and x == "=>":
                        arrow = q
                        break
                    elif d == 0 and x == "|" and guard_at is None:
                        bars.append(q)
                    elif d == 0 and x == "if" and toks[q].kind == "ident" and guard_at is None:
                        guard_at = q
                    q = next_sig(toks, q)
                if arrow is None:
                    break
                b = next_sig(toks, arrow)
                if toks[b].text == "{":
                    e = match_close(toks, b) + 1
                else:
                    d = 0
                    e = b
                    while e < mc:
                        x = toks[e].text
                        if x in ("(", "[", "{"):
                            d += 1
                        elif x in (")", "]", "}"):
                            d -= 1
                        elif x == "," and d == 0:
                            break
                        e = next_sig(toks, e)
                nx = e if e < len(toks) and toks[e].kind not in ("ws", "comment") else next_sig(toks, e - 1)
                end = nx + 1 if nx < mc and toks[nx].text == "," else e
                if guard_at is not None and bars:
                    hit = (a, bars, guard_at, arrow, b, e, end)
                    break
                a = nx + 1 if nx < mc and toks[nx].text == "," else nx
                if a < mc and toks[a].kind in ("ws", "comment"):
                    a = next_sig(toks, a)
            if hit:
                break
        if not hit:
            return src
        a, bars, guard_at, arrow, b, e, end = hit
        cuts = [a] + bars + [guard_at]
        alts = []
        for i in range(len(cuts) - 1):
            lo = cuts[i] + (1 if i > 0 else 0)
            alt = text(toks, lo, cuts[i + 1]).strip()
            if alt:
                alts.append(alt)
        guard = text(toks, guard_at, arrow).strip()
        body = text(toks, b, e).strip()
        arms = "\n".join("%s %s => %s," % (alt, guard, body if body.startswith("{") else "{ %s }" % body) for alt in alts)
        src = text(toks, 0, a) + arms + text(toks, end, len(toks))
        log.append({"rule": "R15", "alternatives": len(alts), "guard": guard[:80]})
    raise ExtractError("R15 did not converge")


# ---------------------------------------------------------------- R17 inline neighbour iterators
def name_neighbor_iterators(src, log):
    """R17: `for P in E {` whose iterable E is a call chain ending in `.neighbors_directed(..)` (not a plain variable) becomes
    `let verif_nbrsK = E; for P in verif_nbrsK {` - the iterable is evaluated once before the loop either way; it gives the
    iterator a name the loop contracts can refer to (and R16 can match with the name it had when it was bound by a `let`)."""
    count = 0
    for _ in range(40):
        toks = tokenize(src)
        hit = None
        for k, t in enumerate(toks):
            if not (t.kind == "ident" and t.text == "for"):
                continue
            p = prev_sig(toks, k)
            if p >= 0 and toks[p].text in ("impl", ">"):
                continue
            # find `in` at depth 0
            j = next_sig(toks, k)
            d = 0
            while j < len(toks):
                x = toks[j]
                if x.text in ("(", "["):
                    d += 1
                elif x.text in (")", "]"):
                    d -= 1
                elif d == 0 and x.kind == "ident" and x.text == "in":
                    break
                elif x.text in ("{", ";"):
                    j = len(toks)
                    break
                j = next_sig(toks, j)
            if j >= len(toks):
                continue
            e0 = next_sig(toks, j)
            # iterable: up to the body `{` at depth 0
            q = e0
            d = 0
            while q < len(toks):
                x = toks[q].text
                if x in ("(", "["):
                    d += 1
                elif x in (")", "]"):
                    d -= 1
                elif x == "{" and d == 0:
                    break
                q = next_sig(toks, q)
            if q >= len(toks):
                continue
            sigs = [toks[i] for i in range(e0, q) if toks[i].kind not in ("ws", "comment")]
            if len(sigs) <= 1 or sigs[-1].text != ")":
                continue
            # last call of the chain must be neighbors_directed
            close = max(i for i in range(e0, q) if toks[i].kind not in ("ws", "comment"))
            dd = 0
            o = close
            while o >= e0:
                if toks[o].text == ")":
                    dd += 1
                elif toks[o].text == "(":
                    dd -= 1
                    if dd == 0:
                        break
                o -= 1
            nm = prev_sig(toks, o)
            if nm < e0 or toks[nm].text != "neighbors_directed":
                continue
            hit = (k, e0, q)
            break
        if not hit:
            return src
        k, e0, q = hit
        count += 1
        name = "verif_nbrs%d" % count
        expr = text(toks, e0, q).strip()
        # a label (`'a: for ..`) stays with the loop: insert the let before the label if there is one
        start = k
        p = prev_sig(toks, k)
        if p >= 0 and toks[p].text == ":" and prev_sig(toks, p) >= 0 and toks[prev_sig(toks, p)].kind == "lifetime":
            start = prev_sig(toks, p)
        src = text(toks, 0, start) + "let %s = %s; " % (name, expr) + text(toks, start, e0) + name + " " + text(toks, q, len(toks))
        log.append({"rule": "R17", "iterator": name, "expr": re.sub(r"\s+", " ", expr)[:100]})
    raise ExtractError("R17 did not converge")


# ---------------------------------------------------------------- R4 format!
def _strip_ref(a):
    a = a.strip()
    while a.startswith("&"):
        a = a[1:].strip()
    return a


def rewrite_format(src, log):
    toks = tokenize(src)
    calls = _find_macro_calls(toks, {"format"})
    if not calls:
        return src
    out = []
    last = 0
    for (k, o, c) in calls:
        args = [text(toks, a, b).strip() for (a, b) in split_args(toks, o + 1, c)]
        lit = args[0]
        out.append(text(toks, last, k))
        if lit == '"{}!!!{}"' and len(args) == 3:
            rep = "verif_key_edge(&%s, &%s)" % (_strip_ref(args[1]), _strip_ref(args[2]))
        elif lit == '"{}!!!"' and len(args) == 2:
            rep = "verif_key_inputs(&%s)" % _strip_ref(args[1])
        elif lit == '"!!!{}"' and len(args) == 2:
            rep = "verif_key_suffix(&%s)" % _strip_ref(args[1])
        else:
            if "!!!" in lit:
                raise ExtractError("format! with !!! of unknown shape: %s" % lit)
            rep = "verif_msg()"
        out.append(rep)
        log.append({"rule": "R4", "literal": lit[:40], "to": rep.split("(")[0]})
        last = c + 1
    out.append(text(toks, last, len(toks)))
    return "".join(out)


# ---------------------------------------------------------------- R5 closure param patterns
def closure_param_patterns(src, log):
    """|(a, b)| body  ->  |verif_kv| { let (a, b) = verif_kv; body }   (body = block or expr up to
    the closing paren of the enclosing call)."""
    for _ in range(20):
        toks = tokenize(src)
        hit = None
        for k, t in enumerate(toks):
            if t.kind == "punct" and t.text == "|":
                j = next_sig(toks, k)
                if toks[j].text == "(":
                    p = prev_sig(toks, k)
                    if p >= 0 and toks[p].text in ("(", ",", "=", "move"):
                        pc = match_close(toks, j)
                        bar = next_sig(toks, pc)
                        if toks[bar].text == "|":
                            hit = (k, j, pc, bar)
                            break
        if not hit:
            return src
        k, j, pc, bar = hit
        b0 = next_sig(toks, bar)
        if toks[b0].text != "{":
            raise ExtractError("R5: closure with pattern parameter must have a block body")
        b1 = match_close(toks, b0)
        pat = text(toks, j, pc + 1)
        new = ("|verif_kv| { let " + pat + " = verif_kv; " + text(toks, b0 + 1, b1) + "}")
        src = text(toks, 0, k) + new + text(toks, b1 + 1, len(toks))
        log.append({"rule": "R5", "pattern": pat})
    raise ExtractError("R5 did not converge")


# ---------------------------------------------------------------- R10 / R11 loop headers
def _for_loops(toks):
    """yield (k_for, k_in, k_body_open, k_body_close) for every `for PAT in EXPR {`"""
    res = []
    for k, t in enumerate(toks):
        if t.kind == "ident" and t.text == "for":
            p = prev_sig(toks, k)
            if p >= 0 and toks[p].text in ("impl", ">"):  # `impl X for Y`, hrtb
                continue
            # find `in` at depth 0
            j = next_sig(toks, k)
            while toks[j].text != "in" or toks[j].kind != "ident":
                if toks[j].text in OPEN:
                    j = match_close(toks, j)
                j = next_sig(toks, j)
                if j >= len(toks):
                    raise ExtractError("for without in")
            # find body `{` at depth 0 (skip parens/brackets; closures in header contain braces
            # only inside parens)
            m = next_sig(toks, j)
            while toks[m].text != "{":
                if toks[m].text in ("(", "["):
                    m = match_close(toks, m)
                m = next_sig(toks, m)
                if m >= len(toks):
                    raise ExtractError("for without body")
            res.append((k, j, m, match_close(toks, m)))
    return res


def _contains_own_continue(toks, a, b):
    """does toks[a:b] contain a `continue` that belongs to this loop (not a nested loop/closure)?"""
    k = a
    while k < b:
        t = toks[k]
        if t.kind == "ident" and t.text in ("for", "while", "loop"):
            # skip nested loop entirely
            m = k
            while toks[m].text != "{":
                if toks[m].text in ("(", "["):
                    m = match_close(toks, m)
                m += 1
            k = match_close(toks, m) + 1
            continue
        if t.kind == "ident" and t.text == "continue":
            return True
        k += 1
    return False


def _contains_own_break(toks, a, b):
    """does toks[a:b] contain a `break` that belongs to this loop (not a nested loop)?"""
    k = a
    while k < b:
        t = toks[k]
        if t.kind == "ident" and t.text in ("for", "while", "loop"):
            m = k
            while toks[m].text != "{":
                if toks[m].text in ("(", "["):
                    m = match_close(toks, m)
                m += 1
            k = match_close(toks, m) + 1
            continue
        if t.kind == "ident" and t.text == "break":
            return True
        k += 1
    return False


_r12 = [0]


def split_headers(src, log):
    """R12: `for X in E.split(":::")` -> `for X in verif_split_multi(E)` (core::str::Split cannot be
    given an iterator spec from outside vstd; the shim's items are exactly parts(E))."""
    _r12[0] = 0
    for _ in range(20):
        toks = tokenize(src)
        hit = None
        for (kf, kin, bo, bc) in _for_loops(toks):
            expr = text(toks, kin + 1, bo).strip()
            m = re.fullmatch(r'(.+?)\.split\(\s*":::"\s*\)', expr, re.S)
            if m:
                hit = (kin, bo, m.group(1).strip())
                break
        if not hit:
            return src
        kin, bo, recv = hit
        # hoist the iterator into a `let` (evaluated once either way) so ghost code can name it
        kf = [x for x in _for_loops(toks) if x[1] == kin][0][0]
        _r12[0] += 1
        var = "verif_split%d" % _r12[0]
        src = (text(toks, 0, kf) + "let %s = verif_split_multi(&%s); " % (var, recv) + text(toks, kf, kin + 1)
               + " %s " % var + text(toks, bo, len(toks)))
        log.append({"rule": "R12", "receiver": recv, "var": var})
    raise ExtractError("R12 did not converge")


def _all_loop_keywords(toks):
    """token indices of every for/while/loop keyword that starts a loop, in textual order"""
    res = []
    for k, t in enumerate(toks):
        if t.kind == "ident" and t.text in ("for", "while", "loop"):
            p = prev_sig(toks, k)
            if t.text == "for" and p >= 0 and toks[p].text in ("impl", ">"):
                continue
            res.append(k)
    return res


def loop_headers(src, log, keep_for=(), force_raw=()):
    """R10: enumerate()/&-pattern headers; R11: for-loops containing `continue` -> loop+next().
    `force_raw`: loop ordinals whose contract is written against the raw form; they are desugared whether or
    not they (still) contain a `continue`.
    `keep_for`: loop ordinals (1-based, all loop kinds, textual order) whose contract is written in the
    vocabulary of Verus's own `for` desugaring: they stay `for` loops here and are desugared by the
    weaver (R11w) when they contain a `continue`."""
    counter = [0]
    for _ in range(60):
        toks = tokenize(src)
        changed = False
        allk = _all_loop_keywords(toks)
        for (kf, kin, bo, bc) in _for_loops(toks):
            ordinal = allk.index(kf) + 1
            pat = text(toks, next_sig(toks, kf), kin).strip()
            expr = text(toks, kin + 1, bo).strip()
            body = text(toks, bo + 1, bc)
            new = None
            m = re.fullmatch(r"\((\w+)\s*,\s*(\w+)\)", pat)
            me = re.fullmatch(r"(.+?)\.(iter|iter_mut)\(\)\s*\.enumerate\(\)", expr, re.S)
            if m and me:
                idx, var = m.group(1), m.group(2)
                vec = me.group(1).strip()
                borrow = "&mut " if me.group(2) == "iter_mut" else "&"
                new = "for %s in 0..%s.len() { let %s = %s%s[%s];%s}" % (
                    idx, vec, var, borrow, vec, idx, body)
                log.append({"rule": "R10", "shape": "enumerate", "over": vec})
            elif pat.startswith("&") and re.fullmatch(r"&\s*\w+", pat):
                var = pat[1:].strip()
                new = "for %s_ref in %s { let %s = *%s_ref;%s}" % (var, expr, var, var, body)
                log.append({"rule": "R10", "shape": "ref-pattern", "var": var})
            elif (_contains_own_continue(toks, bo + 1, bc) and ordinal not in keep_for) or ordinal in force_raw:
                counter[0] += 1
                it = "verif_it%d" % counter[0]
                # label the loop so that woven invariants can name the iterator
                new = ("let mut %s = core::iter::IntoIterator::into_iter(%s); loop { let %s = match %s.next() "
                       "{ Some(verif_x) => verif_x, None => break };%s}" % (it, expr, pat, it, body))
                log.append({"rule": "R11", "iter": it, "pattern": pat})
            if new is not None:
                src = text(toks, 0, kf) + new + text(toks, bc + 1, len(toks))
                changed = True
                break
        if not changed:
            return src
    raise ExtractError("loop header rewriting did not converge")


# ---------------------------------------------------------------- R9 visibility
def lower_visibility(src):
    toks = tokenize(src)
    k = next_sig(toks, -1)
    # skip attributes / comments handled by caller; only strip leading pub / pub(crate)
    if toks[k].text == "pub":
        j = next_sig(toks, k)
        if toks[j].text == "(":
            j = next_sig(toks, match_close(toks, j))
        return text(toks, 0, k) + text(toks, j, len(toks))
    return src


# ---------------------------------------------------------------- R6 adapter chains
def _chain_after(toks, k):
    """toks[k] is an ident followed by `(`...`)`; return index after the closing paren"""
    o = next_sig(toks, k)
    return match_close(toks, o)


def node_adapter_chains(src, log):
    """R6 (node-index chains):
       E.nodes().filter(C).collect()                     -> verif_filter_collect_set(E.nodes(), C)
       E.nodes().filter(C)            (for-loop header)  -> verif_filter_iter(E.nodes(), C)
       S.iter().map(|x| *x).filter(C).collect()          -> verif_set_filter_collect_vec(&S, C)"""
    for _ in range(10):
        toks = tokenize(src)
        hit = None
        for k, t in enumerate(toks):
            if t.kind == "ident" and t.text == "filter":
                p = prev_sig(toks, k)
                if p < 0 or toks[p].text != ".":
                    continue
                fo = next_sig(toks, k)
                if toks[fo].text != "(":
                    continue
                fc = match_close(toks, fo)
                clos = text(toks, fo + 1, fc)
                # what precedes: `... .nodes()` or `... .iter().map(|x| *x)`
                q = prev_sig(toks, p)  # should be `)`
                if toks[q].text != ")":
                    continue
                # walk back over the receiver chain to its start: idents, `.`, `::`, `self`, (), closures in parens
                j = q
                depth = 0
                start = None
                while j >= 0:
                    tt = toks[j]
                    if tt.text in (")", "]"):
                        depth += 1
                    elif tt.text in ("(", "["):
                        depth -= 1
                    elif depth == 0 and tt.kind == "ident" and tt.text in ("in", "let", "for", "return", "mut", "if", "match"):
                        break
                    elif depth == 0 and tt.kind in ("ident",) or (depth == 0 and tt.text in (".", "::")) or depth > 0 \
                            or tt.kind in ("ws", "comment"):
                        pass
                    else:
                        break
                    start = j
                    j -= 1
                while toks[start].kind in ("ws", "comment"):
                    start += 1
                recv = re.sub(r"\s+", "", text(toks, start, p))
                d2 = next_sig(toks, fc)
                is_collect = toks[d2].text == "." and toks[next_sig(toks, d2)].text == "collect"
                end = fc
                if is_collect:
                    end = _chain_after(toks, next_sig(toks, d2))
                m1 = re.fullmatch(r"(.+)\.nodes\(\)", recv)
                m2 = re.fullmatch(r"(\w+)\.iter\(\)\.map\(\|x\|\*x\)", recv)
                if m1 and is_collect:
                    new = "verif_filter_collect_set(%s.nodes(), %s)" % (m1.group(1), clos)
                elif m1:
                    new = "verif_filter_iter(%s.nodes(), %s)" % (m1.group(1), clos)
                elif m2 and is_collect:
                    new = "verif_set_filter_collect_vec(&%s, %s)" % (m2.group(1), clos)
                else:
                    continue
                hit = (start, end, new, recv)
                break
        if not hit:
            return src
        start, end, new, recv = hit
        src = text(toks, 0, start) + new + text(toks, end + 1, len(toks))
        log.append({"rule": "R6", "shape": new.split("(")[0], "receiver": recv})
    raise ExtractError("R6 (node chains) did not converge")


def filter_map_chains(src, log):
    """R6: V.iter().filter_map(C).collect()  ->  verif_filter_map_collect_set(&V, C)"""
    for _ in range(10):
        toks = tokenize(src)
        hit = None
        for k, t in enumerate(toks):
            if t.kind == "ident" and t.text == "filter_map":
                p = prev_sig(toks, k)
                fo = next_sig(toks, k)
                if toks[p].text != "." or toks[fo].text != "(":
                    continue
                fc = match_close(toks, fo)
                d2 = next_sig(toks, fc)
                cl = next_sig(toks, d2)
                if toks[d2].text != "." or toks[cl].text != "collect":
                    raise ExtractError("R6: filter_map not followed by .collect()")
                end = match_close(toks, next_sig(toks, cl))
                # receiver: `<path>.iter()`
                q = prev_sig(toks, p)       # )
                q2 = prev_sig(toks, q)      # (
                it = prev_sig(toks, q2)     # iter
                dot = prev_sig(toks, it)
                if not (toks[q].text == ")" and toks[q2].text == "(" and toks[it].text == "iter" and toks[dot].text == "."):
                    raise ExtractError("R6: filter_map receiver is not `X.iter()`")
                j = prev_sig(toks, dot)
                start = j
                while True:
                    pj = prev_sig(toks, start)
                    if pj >= 0 and toks[pj].text in (".", "::"):
                        start = prev_sig(toks, pj)
                    else:
                        break
                recv = re.sub(r"\s+", "", text(toks, start, dot))
                hit = (start, end, recv, text(toks, fo + 1, fc))
                break
        if not hit:
            return src
        start, end, recv, clos = hit
        src = text(toks, 0, start) + "verif_filter_map_collect_set(&%s, %s)" % (recv, clos) + text(toks, end + 1, len(toks))
        log.append({"rule": "R6", "shape": "iter().filter_map().collect()", "receiver": recv})
    raise ExtractError("R6 (filter_map) did not converge")


# ---------------------------------------------------------------- R6 (string-set chains of the rename matcher)
def string_set_chains(src, log):
    """R6: E.split(":::").map(|x| x.to_string()).collect()  ->  verif_parts_set(&E)
           A.intersection(&B).count()                        ->  verif_intersection_count(&A, &B)
           for X in H.keys() {                               ->  let verif_keysN = verif_map_keys(&H); for X in verif_keysN {"""
    # parts set
    pat = re.compile(r'(\b[\w\.]+)\s*\.split\(\s*":::"\s*\)\s*\.map\(\s*\|(\w+)\|\s*\2\.to_string\(\)\s*\)\s*\.collect\(\)')
    while True:
        m = pat.search(src)
        if not m:
            break
        src = src[:m.start()] + "verif_parts_set(&%s)" % m.group(1) + src[m.end():]
        log.append({"rule": "R6", "shape": "split(:::).map(to_string).collect()", "receiver": m.group(1)})
    # SET.iter().next() -> verif_set_first(&SET)   (the shim is verified, its body is this expression)
    pat = re.compile(r'(\bself\.jobs_ready_to_run)\s*\.iter\(\)\s*\.next\(\)')
    while True:
        m = pat.search(src)
        if not m:
            break
        src = src[:m.start()] + "verif_set_first(&%s)" % m.group(1) + src[m.end():]
        log.append({"rule": "R6", "shape": "set.iter().next()", "receiver": m.group(1)})
    pat = re.compile(r'(\b[\w\.]+)\s*\.intersection\(\s*&\s*([\w\.]+)\s*\)\s*\.count\(\)')
    while True:
        m = pat.search(src)
        if not m:
            break
        src = src[:m.start()] + "verif_intersection_count(&%s, &%s)" % (m.group(1), m.group(2)) + src[m.end():]
        log.append({"rule": "R6", "shape": "intersection().count()", "receiver": m.group(1)})
    n = 0
    for _ in range(10):
        toks = tokenize(src)
        hit = None
        for (kf, kin, bo, bc) in _for_loops(toks):
            expr = text(toks, kin + 1, bo).strip()
            m = re.fullmatch(r'([\w\.]+)\.keys\(\)', expr)
            if m:
                hit = (kf, kin, bo, m.group(1))
                break
        if not hit:
            return src
        kf, kin, bo, recv = hit
        n += 1
        var = "verif_keys%d" % n
        src = (text(toks, 0, kf) + "let %s = verif_map_keys(&%s); " % (var, recv) + text(toks, kf, kin + 1)
               + " %s " % var + text(toks, bo, len(toks)))
        log.append({"rule": "R6", "shape": "for .. in map.keys()", "receiver": recv, "var": var})
    raise ExtractError("R6 (keys) did not converge")


def adapter_chains(src, log):
    """X.drain().filter(C).collect()  ->  verif_drain_filter_collect(&mut X, C)"""
    src = string_set_chains(src, log)
    src = node_adapter_chains(src, log)
    src = filter_map_chains(src, log)
    for _ in range(10):
        toks = tokenize(src)
        hit = None
        for k, t in enumerate(toks):
            if t.kind == "ident" and t.text == "drain":
                p = prev_sig(toks, k)
                o = next_sig(toks, k)
                if p < 0 or toks[p].text != "." or toks[o].text != "(":
                    continue
                c = match_close(toks, o)
                if text(toks, o + 1, c).strip():
                    continue  # drain(..) on VecDeque is handled by the shim type
                d1 = next_sig(toks, c)
                f = next_sig(toks, d1)
                if toks[d1].text != "." or toks[f].text != "filter":
                    raise ExtractError("R6: drain() not followed by .filter")
                fo = next_sig(toks, f)
                fc = match_close(toks, fo)
                d2 = next_sig(toks, fc)
                cl = next_sig(toks, d2)
                if toks[d2].text != "." or toks[cl].text != "collect":
                    raise ExtractError("R6: drain().filter() not followed by .collect")
                co = next_sig(toks, cl)
                cc = match_close(toks, co)
                recv = prev_sig(toks, p)
                if toks[recv].kind != "ident":
                    raise ExtractError("R6: drain receiver is not a plain variable")
                hit = (recv, cc, toks[recv].text, text(toks, fo + 1, fc))
                break
        if not hit:
            return src
        recv, cc, name, clos = hit
        src = text(toks, 0, recv) + "verif_drain_filter_collect(&mut %s, %s)" % (name, clos) + text(toks, cc + 1, len(toks))
        log.append({"rule": "R6", "shape": "drain().filter().collect()", "receiver": name})
    raise ExtractError("R6 did not converge")
