#!/bin/bash
# usage: seed_run.sh <seed dir name> -- apply seeded/<name>/patch.diff to the repo, run every claimed check, undo
N=$1
V="$(cd "$(dirname "$0")/.." && pwd)"
R=${VERIF_REPO:-/repo}
cd "$V"
git -C "$R" diff --quiet || { echo "$R not clean"; exit 2; }
git -C "$R" apply "$V/seeded/$N/patch.diff" || { echo "patch does not apply"; exit 2; }
PROPS=$(python3 -c "import json;print(' '.join(c['property_id'] for c in json.load(open('MANIFEST.json'))['checks']))")
for p in $PROPS; do
  R1=$(./check $p quick 2>&1 | grep -E "^(VIOLATION|UNDECIDED)" | head -3 | cut -c1-260)
  if [ -n "$R1" ]; then echo "[$p] $R1"; fi
done
git -C "$R" checkout -- .
