#!/bin/bash
# usage: seed_run.sh <seed dir name> -- apply /verif/seeded/<name>/patch.diff to /repo, run every claimed check, undo
N=$1
cd /verif
git -C /repo diff --quiet || { echo "/repo not clean"; exit 2; }
git -C /repo apply /verif/seeded/$N/patch.diff || { echo "patch does not apply"; exit 2; }
PROPS=$(python3 -c "import json;print(' '.join(c['property_id'] for c in json.load(open('MANIFEST.json'))['checks']))")
OUT=""
for p in $PROPS; do
  R=$(./check $p quick 2>&1 | grep -E "^(VIOLATION|UNDECIDED)" | head -3 | cut -c1-220)
  rc=$?
  if [ -n "$R" ]; then echo "[$p] $R"; fi
done
git -C /repo checkout -- .
