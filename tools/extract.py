#!/usr/bin/env python3
"""Extract the functions under contract from /repo's current working tree, apply the
mechanical rules R1..R11, weave the contracts from /verif/contracts/*.vspec, and write one
single-file Verus crate plus an obligation map.

usage: extract.py --repo /repo --contracts /verif/contracts --out DIR [--vacuity]
exit 0 ok, exit 2 on anything not understood (never an alarm).
"""
import argparse
import hashlib
import json
import os
import re
import sys

sys.path.insert(0, os.path.dirname(os.path.abspath(__file__)))
from rstok import (tokenize, split_items, match_close, text, next_sig, prev_sig, ExtractError, OPEN)
import rules


# --------------------------------------------------------------------------- vspec parsing
class Clause:
    def __init__(self, kind, arg, tags, name, body, src):
        self.kind, self.arg, self.tags, self.name, self.body, self.src = kind, arg, tags, name, body, src


class FnSpec:
    def __init__(self, path, src):
        self.path = path
        self.src = src
        self.clauses = []
        self.returns = None
        self.attrs = []
        self.replace_body = None

    def of(self, kind):
        return [c for c in self.clauses if c.kind == kind]


_HEAD = re.compile(r"^---\s+(\S+)(.*)$")


def parse_vspec(path):
    specs = {}
    order = []
    cur = None
    cl = None
    globals_ = []
    with open(path) as f:
        lines = f.read().split("\n")
    for ln, line in enumerate(lines, 1):
        if line.startswith("=== "):
            m = re.match(r"^===\s+(fn|spec)\s+(.+?)\s*$", line)
            if not m:
                raise ExtractError("%s:%d bad === line" % (path, ln))
            if m.group(1) == "spec":
                cur = None
                cl = Clause("spec", None, [], m.group(2), [], "%s:%d" % (path, ln))
                globals_.append(cl)
            else:
                cur = FnSpec(m.group(2), "%s:%d" % (path, ln))
                if cur.path in specs:
                    raise ExtractError("duplicate fn spec %s" % cur.path)
                specs[cur.path] = cur
                order.append(cur.path)
                cl = None
            continue
        m = _HEAD.match(line)
        if m and (cur is not None):
            kind, rest = m.group(1), m.group(2).strip()
            arg = None
            tags = []
            name = None
            # optional numeric arg
            mm = re.match(r"^(\d+|\*|\?)\s*(.*)$", rest)
            if mm and kind in ("loop", "inv", "invxb", "loopensures", "loopdec", "body-start", "body-end",
                               "before", "after", "replace", "block-end", "inherit", "closure-spec", "pre-loop", "post-loop", "rawloop"):
                arg = 0 if mm.group(1) == "*" else (-1 if mm.group(1) == "?" else int(mm.group(1)))
                rest = mm.group(2).strip()
            mt = re.match(r"^\[([^\]]*)\]\s*(.*)$", rest)
            if mt:
                tags = [x.strip() for x in mt.group(1).split(",") if x.strip()]
                rest = mt.group(2).strip()
            if kind in ("before", "after", "replace", "block-end", "closure-spec"):
                ma = re.match(r'^`(.*)`\s*$', rest)
                if not ma:
                    raise ExtractError("%s:%d anchor must be in backticks" % (path, ln))
                name = ma.group(1)
            else:
                name = rest or None
            if kind == "returns":
                cur.returns = rest
                cl = None
                continue
            if kind == "attr":
                cur.attrs.append(rest)
                cl = None
                continue
            cl = Clause(kind, arg, tags, name, [], "%s:%d" % (path, ln))
            cur.clauses.append(cl)
            continue
        if cl is not None:
            cl.body.append(line)
        elif line.strip() and not line.startswith("#"):
            raise ExtractError("%s:%d text outside a section" % (path, ln))
    for s in list(specs.values()) + [None]:
        for c in (s.clauses if s else globals_):
            # strip comment lines and trailing blanks
            body = [b for b in c.body if not b.lstrip().startswith("#!")]
            while body and not body[-1].strip():
                body.pop()
            c.body = "\n".join(body)
    return specs, order, globals_


# --------------------------------------------------------------------------- source model
class Source:
    def __init__(self, repo):
        self.repo = repo
        self.engine_path = os.path.join(repo, "src/engine.rs")
        self.lib_path = os.path.join(repo, "src/lib.rs")
        self.engine = open(self.engine_path).read()
        self.lib = open(self.lib_path).read()
        self.etoks = tokenize(self.engine)
        self.ltoks = tokenize(self.lib)
        if "".join(t.text for t in self.etoks) != self.engine:
            raise ExtractError("tokenizer round trip failed")
        self.eitems = split_items(self.etoks, 0, len(self.etoks))
        self.litems = split_items(self.ltoks, 0, len(self.ltoks))
        self.macros = {}
        for it in self.eitems:
            if it.kind == "macro_rules":
                md = rules.parse_macro_def(text(self.etoks, it.head_a, it.b))
                self.macros[md.name] = md
        self.fns = {}   # path -> (toks, item, impl_header)
        self.types = []  # (name, text)
        for it in self.eitems:
            if it.kind == "impl":
                hdr = it.name
                m = re.match(r"^(?:<[^>]*>\s*)?(?:(\w+)\s+for\s+)?(\w+)", hdr)
                if not m:
                    raise ExtractError("impl header %r" % hdr)
                tyname = m.group(2)
                for sub in split_items(self.etoks, it.body_open + 1, it.body_close):
                    if sub.kind == "fn":
                        self.fns["%s::%s" % (tyname, sub.name)] = (self.etoks, sub, it)
            elif it.kind == "trait":
                for sub in split_items(self.etoks, it.body_open + 1, it.body_close):
                    if sub.kind == "fn":
                        self.fns["trait %s::%s" % (it.name, sub.name)] = (self.etoks, sub, it)
        for it in self.litems:
            if it.kind == "trait" and it.name == "PPGEvaluatorStrategy":
                for sub in split_items(self.ltoks, it.body_open + 1, it.body_close):
                    if sub.kind == "fn":
                        self.fns["trait %s::%s" % (it.name, sub.name)] = (self.ltoks, sub, it)

    def line_of(self, toks, k):
        src = self.engine if toks is self.etoks else self.lib
        return src.count("\n", 0, toks[k].start) + 1


def line_count(s):
    return s.count("\n")


def local_decls(fn_text):
    """R16: the function's `let [mut] NAME [: T] = ..;` statements in textual order as (name, shape); the shape is the
    statement's significant tokens with every declared name replaced by its ordinal"""
    toks = tokenize(fn_text)
    sig = [t for t in toks if t.kind not in ("ws", "comment")]
    decls = []
    i = 0
    while i < len(sig):
        if sig[i].kind == "ident" and sig[i].text == "let":
            j = i + 1
            if j < len(sig) and sig[j].text == "mut":
                j += 1
            if j + 1 < len(sig) and sig[j].kind == "ident" and sig[j + 1].text in ("=", ":", ";"):
                # statement end: `;` at depth 0
                d = 0
                k = j + 1
                while k < len(sig):
                    x = sig[k].text
                    if x in ("(", "[", "{"):
                        d += 1
                    elif x in (")", "]", "}"):
                        d -= 1
                    elif x == ";" and d == 0:
                        break
                    k += 1
                decls.append((sig[j].text, i, j, k))
        i += 1
    out = []
    for (name, i, j, k) in decls:
        shape = []
        for q in range(i, min(k + 1, len(sig))):
            t = sig[q]
            shape.append("$" if (t.kind == "ident" and t.text == name) else t.text)
        out.append([name, " ".join(shape)])
    return out


def _variable_idents(tx):
    """identifiers of a contract text that can denote variables: not `.field` and not the `field:` label of a struct literal"""
    sig = [t for t in tokenize(tx) if t.kind not in ("ws", "comment")]
    res = set()
    for i, t in enumerate(sig):
        if t.kind != "ident":
            continue
        if i > 0 and sig[i - 1].text == ".":
            continue
        if i + 1 < len(sig) and sig[i + 1].text == ":" and i > 0 and sig[i - 1].text in ("{", ","):
            # field label iff the innermost enclosing bracket is `{` (binders `|i: int|` / `(i: int)` are variables)
            d = 0
            j = i - 1
            opener = None
            while j >= 0:
                x = sig[j].text
                if x in (")", "]", "}"):
                    d += 1
                elif x in ("(", "[", "{"):
                    if d == 0:
                        opener = x
                        break
                    d -= 1
                elif x == "|" and d == 0:
                    opener = "|"
                    break
                j -= 1
            if opener == "{":
                continue
        res.add(t.text)
    return res


def rename_map(baseline, current, fn_text, spec):
    """R16: {old: new} if the function declares as many locals as recorded and the declarations whose names disappeared pair up, in
    order, with identically shaped declarations of new names"""
    if baseline is None or len(baseline) != len(current) or baseline == current:
        return {}
    bn = [b[0] for b in baseline]
    cn = [c[0] for c in current]
    removed = [b for b in baseline if b[0] not in cn]
    added = [c for c in current if c[0] not in bn]
    if not removed or len(removed) != len(added):
        return {}
    if any(b[1] != c[1] for b, c in zip(removed, added)):   # a renamed declaration must be otherwise identical
        return {}
    m = {b[0]: c[0] for b, c in zip(removed, added)}
    idents = set(t.text for t in tokenize(fn_text) if t.kind == "ident")
    if any(old in idents for old in m):          # the old name is still in use: not a plain rename
        return {}
    if len(set(m.values())) != len(m):
        return {}
    spec_idents = set()
    for c in spec.clauses:
        for tx in (c.body or "", c.name or ""):
            spec_idents |= _variable_idents(tx)
    if any(new in spec_idents for new in m.values()):   # would collide with a name the contract already uses
        return {}
    return m


def rename_spec(spec, m):
    def sub(tx):
        if not tx:
            return tx
        toks = tokenize(tx)
        out = []
        prev = None
        for t in toks:
            if t.kind == "ident" and t.text in m and not (prev is not None and prev.text == "."):
                out.append(m[t.text])
            else:
                out.append(t.text)
            if t.kind not in ("ws", "comment"):
                prev = t
        return "".join(out)
    ns = FnSpec(spec.path, spec.src)
    ns.returns, ns.attrs, ns.replace_body = spec.returns, list(spec.attrs), spec.replace_body
    for c in spec.clauses:
        keep_name = c.kind in ("requires", "ensures", "decreases", "inv", "invxb", "loopensures", "loopdec", "inherit", "loop",
                               "fn-start", "fn-end", "body-start", "body-end", "pre-loop", "post-loop", "rawloop")
        ns.clauses.append(Clause(c.kind, c.arg, list(c.tags), c.name if keep_name else sub(c.name), sub(c.body), c.src))
    return ns


def rewrite_accessor(text, acc, field):
    """R14: `acc(E)` -> `E.field` (balanced parentheses; E is an identifier possibly followed by index brackets)"""
    out = []
    i = 0
    pat = re.compile(r"\b%s\(" % re.escape(acc))
    while True:
        m = pat.search(text, i)
        if not m:
            out.append(text[i:])
            return "".join(out)
        k = m.end()
        d = 1
        while d:
            c = text[k]
            d += (c == "(") - (c == ")")
            k += 1
        inner = text[m.end():k - 1]
        if not re.fullmatch(r"\w+(\[[^\[\]]*\])*", inner):
            raise ExtractError("R14: argument of %s is not a place expression: %s" % (acc, inner))
        out.append(text[i:m.start()] + inner + "." + field)
        i = k


# --------------------------------------------------------------------------- weaving
# self-test switch: desugar every labelled `for` loop (R11w) even without a `continue`
FORCE_DESUGAR = bool(os.environ.get("VERIF_FORCE_DESUGAR"))


def find_anchor(toks, anchor, nth):
    """n-th (1-based) occurrence of the anchor's significant-token sequence; returns (a,b) token range"""
    at = [t.text for t in tokenize(anchor) if t.kind not in ("ws", "comment")]
    sigs = [k for k, t in enumerate(toks) if t.kind not in ("ws", "comment")]
    hits = []
    for i in range(len(sigs) - len(at) + 1):
        if all(toks[sigs[i + j]].text == at[j] for j in range(len(at))):
            hits.append((sigs[i], sigs[i + len(at) - 1] + 1))
    if nth == -1:
        # `?`: every occurrence, possibly none (an obligation on a site that need not exist, e.g. "no internal error is
        # raised here" after the site was removed by a repair)
        return hits
    if nth == 0:
        if not hits:
            raise ExtractError("lost anchor `%s` (found 0)" % anchor)
        return hits
    if len(hits) < nth:
        raise ExtractError("lost anchor `%s` #%d (found %d)" % (anchor, nth, len(hits)))
    return [hits[nth - 1]]


def find_loops(toks, a, b):
    """loops (for/while/loop) in toks[a:b] in textual order: (k_kw, k_body_open, k_body_close)"""
    res = []
    k = a
    while k < b:
        t = toks[k]
        if t.kind == "ident" and t.text in ("for", "while", "loop"):
            p = prev_sig(toks, k)
            if t.text == "for" and p >= 0 and toks[p].text in ("impl", ">"):
                k += 1
                continue
            m = next_sig(toks, k)
            while toks[m].text != "{":
                if toks[m].text in ("(", "["):
                    m = match_close(toks, m)
                m = next_sig(toks, m)
            res.append((k, m, match_close(toks, m)))
        k += 1
    return res


class Woven:
    """accumulates output text and records line ranges of obligations"""

    def __init__(self):
        self.parts = []
        self.line = 1
        self.obligations = []   # dicts
        self.functions = []

    def emit(self, s):
        self.parts.append(s)
        self.line += s.count("\n")

    def text(self):
        return "".join(self.parts)


def weave_function(src_fn, spec, path, W, opts, meta):
    """src_fn: rewritten function text (attrs stripped). Returns woven text and registers obligations
    with line numbers relative to the function start (fixed up by caller)."""
    toks = tokenize(src_fn)
    # locate signature end: the body `{` at depth 0, or `;` for trait decls
    k = next_sig(toks, -1)
    m = k
    body_open = None
    while m < len(toks):
        t = toks[m]
        if t.text in ("(", "["):
            m = match_close(toks, m) + 1
            continue
        if t.text == "{":
            body_open = m
            break
        if t.text == ";":
            break
        m += 1
    sig_end = m   # token index of `{` or `;`
    body_close = match_close(toks, body_open) if body_open is not None else None

    inserts = []  # (token_index, order, text, obligation or None)  text inserted BEFORE token index
    deleted = set()
    header_obs = []
    seq = [0]

    exec_inserts = set()

    def add(at, txt, ob=None, prio=0, is_exec=False):
        seq[0] += 1
        inserts.append((at, prio * 100000 + seq[0], txt, ob))
        if is_exec:
            exec_inserts.add(prio * 100000 + seq[0])

    def ob(kind, c, extra=None):
        d = {"fn": path, "kind": kind, "name": c.name or "", "tags": c.tags, "spec_src": c.src,
             "text": re.sub(r"\s+", " ", c.body.strip())[:300]}
        if extra:
            d.update(extra)
        return d

    # ---- return naming
    replace_ret = None
    if spec.returns:
        # find `->` at depth 0 in signature
        j = k
        arrow = None
        while j < sig_end:
            if toks[j].text in ("(", "["):
                j = match_close(toks, j) + 1
                continue
            if toks[j].text == "->":
                arrow = j
            j += 1
        if arrow is None:
            raise ExtractError("%s: returns given but no return type" % path)
        # type runs from arrow+1 to sig_end (or `where`)
        ty_a = next_sig(toks, arrow)
        ty_b = sig_end
        for j in range(ty_a, sig_end):
            if toks[j].kind == "ident" and toks[j].text == "where":
                ty_b = j
                break
        ty = text(toks, ty_a, ty_b).strip()
        replace_ret = (ty_a, ty_b, "(%s: %s)" % (spec.returns, ty))

    # ---- signature clauses
    sigtxt = []
    for kind in ("requires", "ensures"):
        cls = spec.of(kind)
        if cls:
            add(sig_end, "\n    %s\n" % kind)
            for c in cls:
                body = c.body.strip()
                if not body:
                    raise ExtractError("%s: empty %s clause" % (path, kind))
                add(sig_end, "        " + body.replace("\n", "\n        ") + ",\n",
                    ob(kind, c))
    for c in spec.of("decreases"):
        add(sig_end, "    decreases " + c.body.strip() + ",\n", ob("decreases", c))

    # ---- body level
    if body_open is not None:
        loops = find_loops(toks, body_open + 1, body_close)
        for hn, c in enumerate(spec.of("fn-start"), 1):
            add(body_open + 1, "\n" + c.body + "\n",
                ob("hint", c, {"name": "fn-start#%d[%s]" % (hn, ",".join(c.tags))}) if c.tags else None)
        for hn, c in enumerate(spec.of("fn-end"), 1):
            add(body_close, "\n" + c.body + "\n",
                ob("hint", c, {"name": "fn-end#%d[%s]" % (hn, ",".join(c.tags))}) if c.tags else None)
        # `--- inherit N M`: loop N repeats the invariants of loop M (nested loops must restate them)
        for c in spec.of("inherit"):
            parts_ = c.name.split()
            src_loop = int(parts_[0])
            skip = set(x[1:] for x in parts_[1:] if x.startswith("-"))
            for c2 in list(spec.clauses):
                if c2.kind == "inv" and c2.arg == src_loop and (c2.name or "") not in skip and not (c2.name or "").startswith("inherited-"):
                    spec.clauses.append(Clause("inv", c.arg, list(c2.tags), "inherited-%d-%s" % (src_loop, c2.name), c2.body, c2.src))
        loop_ids = sorted(set(c.arg for c in spec.clauses
                              if c.kind in ("loop", "inv", "invxb", "loopensures", "loopdec", "body-start",
                                            "body-end", "pre-loop", "post-loop")))
        for n in loop_ids:
            if n < 1 or n > len(loops):
                raise ExtractError("%s: lost loop #%d (function has %d loops)" % (path, n, len(loops)))
            (kw, lo, lc) = loops[n - 1]
            label = [c for c in spec.of("loop") if c.arg == n]
            # `--- pre-loop N`: ghost text right before loop N (placed by ordinal, not by the text of the header)
            for hn, c in enumerate([c for c in spec.of("pre-loop") if c.arg == n], 1):
                add(kw, "\n" + c.body + "\n", ob("hint", c, {"name": "pre-loop%d#%d[%s]" % (n, hn, ",".join(c.tags))}) if c.tags else None)
            # `--- post-loop N`: ghost text right after loop N (independent of the text that follows the loop)
            for hn, c in enumerate([c for c in spec.of("post-loop") if c.arg == n], 1):
                add(lc + 1, "\n" + c.body + "\n", ob("hint", c, {"name": "post-loop%d#%d[%s]" % (n, hn, ",".join(c.tags))}) if c.tags else None)
            desugared = None
            if label and label[0].name:
                # `--- loop N it` : label for-loop iterator  `for x in it: EXPR`
                if toks[kw].text != "for":
                    raise ExtractError("%s: loop #%d label on non-for loop" % (path, n))
                j = next_sig(toks, kw)
                while not (toks[j].kind == "ident" and toks[j].text == "in"):
                    if toks[j].text in OPEN:
                        j = match_close(toks, j)
                    j = next_sig(toks, j)
                own_continue = rules._contains_own_continue(toks, lo + 1, lc)
                if own_continue or FORCE_DESUGAR:
                    # R11w: Verus rejects `continue` in `for` loops.  The loop is replaced by Verus's own
                    # desugaring of `for x in it: E` (as printed by -Zunpretty=expanded), written out in
                    # source form: wrapper creation, `loop`, `match next() {Some(x) => x, None => break}`.
                    # The contract clauses are the same ones as for the `for` form.
                    nm = label[0].name
                    pat = text(toks, next_sig(toks, kw), j).strip()
                    expr = text(toks, j + 1, lo).strip()
                    own_break = rules._contains_own_break(toks, lo + 1, lc)
                    desugared = {"name": nm, "own_break": own_break}
                    for dk in range(kw, j + 1):
                        deleted.add(dk)
                    add(kw, ("#[verus::internal(loop_isolation_boundary)] { let mut %s = vstd::std_specs::iter::"
                             "VerusForLoopWrapper::new(core::iter::IntoIterator::into_iter(" % nm), None, prio=1, is_exec=True)
                    add(lc + 1, " }", None, prio=-1, is_exec=True)
                    add(lo, ")); let ghost verif_snap_%s = %s.snapshot@; loop " % (nm, nm), None, prio=-1, is_exec=True)
                    add(lo + 1, (" let ghost verif_old_%s = %s; let %s = match vstd::std_specs::iter::VerusForLoopWrapper"
                                 "::next(&mut %s) { Some(verif_x) => verif_x, None => break }; proof { assert(vstd::std_specs"
                                 "::iter::trigger_peek_implications(verif_old_%s.snapshot@.peek(verif_old_%s.index@))); } "
                                 "let ghost %s = verif_old_%s;" % (nm, nm, pat, nm, nm, nm, nm, nm)), None, prio=-1, is_exec=True)
                    if opts.get("log") is not None:
                        opts["log"].append({"rule": "R11w", "loop": n, "label": nm, "pattern": pat,
                                            "reason": "continue" if own_continue else "forced"})
                else:
                    add(j + 1, " %s: " % label[0].name)
            # the loop header itself (implicit iterator-law invariants of `for`): tags = union of the loop's clauses
            ltags = sorted(set(t for c in spec.clauses if c.arg == n and c.kind in ("inv", "invxb", "loopensures") for t in c.tags))
            if ltags:
                hdr_lines = text(toks, kw, lo).count("\n")
                header_obs.append((kw, {"fn": path, "kind": "loop-header", "name": "loop%d" % n, "tags": ltags, "loop": n,
                                        "text": re.sub(r"\s+", " ", text(toks, kw, lo))[:200]}, hdr_lines))
            for (kind, kwd) in (("invxb", "invariant_except_break"), ("inv", "invariant"),
                                ("loopensures", "ensures"), ("loopdec", "decreases")):
                cls = [c for c in spec.of(kind) if c.arg == n]
                auto = []
                if desugared:
                    nm = desugared["name"]
                    if kind == "invxb":
                        auto = ["%s.iter.decrease().is_some()" % nm]
                    elif kind == "inv":
                        auto = ["%s.snapshot@ == verif_snap_%s" % (nm, nm), "%s.wf()" % nm]
                    elif kind == "loopensures" and not desugared["own_break"]:
                        auto = ["%s.snapshot@.will_return_none()" % nm, "%s.index@ == %s.seq().len()" % (nm, nm)]
                    elif kind == "loopdec" and not cls:
                        auto = ["%s.iter.decrease().unwrap_or(vstd::pervasive::arbitrary())" % nm]
                if cls or auto:
                    add(lo, "\n        %s\n" % kwd)
                    for a_ in auto:
                        add(lo, "            " + a_ + ",\n")
                    for c in cls:
                        add(lo, "            " + c.body.strip().replace("\n", "\n            ") + ",\n",
                            ob("loop-" + kind, c, {"loop": n}))
            for hn, c in enumerate([c for c in spec.of("body-start") if c.arg == n], 1):
                add(lo + 1, "\n" + c.body + "\n", ob("hint", c, {"name": "loop%d-body-start#%d[%s]" % (n, hn, ",".join(c.tags))}) if c.tags else None)
            for hn, c in enumerate([c for c in spec.of("body-end") if c.arg == n], 1):
                pk = prev_sig(toks, lc)
                semi = "" if toks[pk].text in (";", "}", "{") else ";"  # loop bodies have type ()
                add(lc, semi + "\n" + c.body + "\n", ob("hint", c, {"name": "loop%d-body-end#%d[%s]" % (n, hn, ",".join(c.tags))}) if c.tags else None)
        for c in spec.of("before"):
            for hn, (a, b) in enumerate(find_anchor(toks[:body_close + 1], c.name, 1 if c.arg is None else c.arg), 1):
                add(a, "\n" + c.body + "\n", ob("hint", c, {"name": "%s#%d[%s]" % (c.name, c.arg if (c.arg and c.arg > 0) else hn, ",".join(c.tags))}) if c.tags else None)
        for c in spec.of("block-end"):
            for hn, (a, b) in enumerate(find_anchor(toks[:body_close + 1], c.name, 1 if c.arg is None else c.arg), 1):
                if toks[b - 1].text != "{":
                    raise ExtractError("%s: block-end anchor must end with `{`" % path)
                bc = match_close(toks, b - 1)
                pk = prev_sig(toks, bc)
                semi = "" if toks[pk].text in (";", "}", "{") else ";"
                add(bc, semi + "\n" + c.body + "\n", ob("hint", c, {"name": "end-of:%s#%d[%s]" % (c.name, c.arg if (c.arg and c.arg > 0) else hn, ",".join(c.tags))}) if c.tags else None)
        for c in spec.of("closure-spec"):
            # anchor = text up to and including the closure's parameter list `|..|`; the spec goes between
            # the parameters and the body; a brace-less `match` body is wrapped in braces (ghost-neutral)
            for hn, (a, b) in enumerate(find_anchor(toks[:body_close + 1], c.name, 1 if c.arg is None else c.arg), 1):
                nb = next_sig(toks, b - 1)
                o = ob("closure-ensures", c, {"name": "%s#%d[%s]" % (c.name, c.arg if (c.arg and c.arg > 0) else hn, ",".join(c.tags))}) if c.tags else None
                if toks[nb].text == "{":
                    add(nb, "\n" + c.body + "\n", o)
                elif toks[nb].text == "match":
                    m2 = next_sig(toks, nb)
                    while toks[m2].text != "{":
                        if toks[m2].text in ("(", "["):
                            m2 = match_close(toks, m2)
                        m2 = next_sig(toks, m2)
                    mc = match_close(toks, m2)
                    add(nb, "\n" + c.body + "\n{ ", o)
                    add(mc + 1, " }")
                else:
                    # expression body: runs up to the `,` or `)` that ends the closure argument
                    j = nb
                    while True:
                        if toks[j].text in ("(", "[", "{"):
                            j = match_close(toks, j) + 1
                            continue
                        if toks[j].text in (")", ","):
                            break
                        j += 1
                    add(nb, "\n" + c.body + "\n{ ", o)
                    add(j, " }")
        for c in spec.of("replace"):
            for hn, (a, b) in enumerate(find_anchor(toks[:body_close + 1], c.name, 1 if c.arg is None else c.arg), 1):
                # ghost-only replacement (names a closure's return value); checked: the replacement
                # text with `(name: T)` collapsed to `T` and requires/ensures clauses removed must
                # equal the anchor
                body = c.body
                mt = re.search(r"ensures\s+\[([^\]]*)\]", body)
                tags = []
                if mt:
                    tags = [x.strip() for x in mt.group(1).split(",")]
                    body = body.replace(mt.group(0), "ensures")
                core = re.split(r"\b(requires|ensures)\b", body)[0]
                core = re.sub(r"\(\s*\w+\s*:\s*([^()]+)\)\s*$", r"\1", core.strip())
                norm = lambda x: re.sub(r"\s+", "", x)
                if norm(core) != norm(c.name):
                    raise ExtractError("%s: replace changes exec text: %r vs %r" % (path, core, c.name))
                o = ob("closure-ensures", c, {"name": "%s#%d" % (c.name, hn), "tags": tags}) if tags else None
                add(a, "\n" + body + "\n", o)
                for dk in range(a, b):
                    deleted.add(dk)
        for c in spec.of("after"):
            for hn, (a, b) in enumerate(find_anchor(toks[:body_close + 1], c.name, 1 if c.arg is None else c.arg), 1):
                add(b, "\n" + c.body + "\n", ob("hint", c, {"name": "%s#%d[%s]" % (c.name, c.arg if (c.arg and c.arg > 0) else hn, ",".join(c.tags))}) if c.tags else None)
        if opts.get("vacuity"):
            add(body_open + 1, "\n    assert(false); // VACUITY-PROBE fn-start\n",
                {"fn": path, "kind": "vacuity", "name": "fn-start", "tags": [], "text": ""})
            for n, (kw, lo, lc) in enumerate(loops, 1):
                add(lo + 1, "\n    assert(false); // VACUITY-PROBE loop %d\n" % n,
                    {"fn": path, "kind": "vacuity", "name": "loop%d" % n, "tags": [], "text": ""})
    elif [c for c in spec.clauses if c.kind not in ("requires", "ensures", "decreases")]:
        raise ExtractError("%s: body clauses on a bodiless fn" % path)

    # ---- assemble, tracking lines
    inserts.sort(key=lambda x: (x[0], x[1]))
    ghost = []
    out = []
    cur_line = 0  # relative line offset
    obs = []
    ins_i = 0
    for idx in range(len(toks) + 1):
        while ins_i < len(inserts) and inserts[ins_i][0] == idx:
            _, okey, txt, o = inserts[ins_i]
            if txt.strip() and okey not in exec_inserts:
                lead0 = len(txt) - len(txt.lstrip("\n"))
                ghost.append((cur_line + lead0, cur_line + txt.rstrip("\n").count("\n")))
            if o is not None:
                lead = len(txt) - len(txt.lstrip("\n"))
                o = dict(o)
                o["rel_line_start"] = cur_line + lead
                o["rel_line_end"] = cur_line + txt.rstrip("\n").count("\n")
                obs.append(o)
            out.append(txt)
            cur_line += txt.count("\n")
            ins_i += 1
        for (hk, ho, hl) in header_obs:
            if hk == idx:
                ho = dict(ho)
                ho["rel_line_start"] = cur_line
                ho["rel_line_end"] = cur_line + hl
                obs.append(ho)
        if idx < len(toks):
            t = toks[idx]
            if replace_ret and replace_ret[0] <= idx < replace_ret[1]:
                if idx == replace_ret[0]:
                    out.append(replace_ret[2] + " ")
                continue
            if idx in deleted:
                continue
            out.append(t.text)
            cur_line += t.text.count("\n")
    weave_function.last_ghost = ghost
    return "".join(out), obs


def site_obligations(path, woven_text, contracted_names):
    """enumerate R3 sites, unwrap sites and calls to functions that have a `requires`."""
    toks = tokenize(woven_text)
    obs = []
    counts = {}
    for k, t in enumerate(toks):
        if t.kind != "ident":
            continue
        n = next_sig(toks, k)
        if n >= len(toks) or toks[n].text != "(":
            continue
        kind = None
        if t.text == "verif_panic":
            kind = "panic"
        elif t.text == "verif_assert":
            kind = "assert"
        elif t.text == "unwrap":
            kind = "unwrap"
        elif t.text in contracted_names:
            p = prev_sig(toks, k)
            pp = prev_sig(toks, p) if p >= 0 else -1
            # only calls on the evaluator itself: `Self::name(` / `self.name(` (JobState has methods of
            # the same names without preconditions)
            if p >= 0 and pp >= 0 and ((toks[p].text == "::" and toks[pp].text == "Self")
                                       or (toks[p].text == "." and toks[pp].text == "self")):
                kind = "call:" + t.text
        elif t.text.startswith("verif_macro_") and t.text[len("verif_macro_"):] in contracted_names:
            kind = "call:" + t.text[len("verif_macro_"):]
        if kind is None:
            continue
        counts[kind] = counts.get(kind, 0) + 1
        line = woven_text.count("\n", 0, t.start)
        c = match_close(toks, n)
        end_line = woven_text.count("\n", 0, toks[c].start)
        obs.append({"fn": path, "kind": "site", "name": "%s#%d" % (kind, counts[kind]),
                    "tags": ["C06"] if kind in ("panic", "assert", "unwrap") else [],
                    "text": re.sub(r"\s+", " ", text(toks, k, c + 1))[:160],
                    "rel_line_start": line, "rel_line_end": end_line, "col_start": t.start})
    return obs


# --------------------------------------------------------------------------- main assembly
def rewrite_item_text(src, S, log, sites, is_fn=True, outline=None, keep_for=(), force_raw=()):
    src = rules.expand_local_macros(src, S.macros, log, outline)
    src = rules.drop_log_macros(src, log)
    src = rules.panics_to_obligations(src, log, sites)
    src = rules.rewrite_format(src, log)
    src = rules.closure_param_patterns(src, log)
    src = rules.clone_from_calls(src, log)
    src = rules.split_or_guard_arms(src, log)
    src = rules.name_neighbor_iterators(src, log)
    src = rules.adapter_chains(src, log)
    src = rules.split_headers(src, log)
    src = rules.loop_headers(src, log, keep_for, force_raw)
    return src


def strip_attrs(toks, item):
    """text of the item without its leading attributes (doc comments kept as comments)"""
    return text(toks, item.head_a, item.b)


def build(repo, contracts_dir, out_dir, vacuity=False, only=None):
    S = Source(repo)
    cfg = json.load(open(os.path.join(contracts_dir, "units.json")))
    lb = os.path.join(contracts_dir, "locals.json")
    locals_base = json.load(open(lb)) if os.path.exists(lb) else {}
    locals_now = {}
    specs = {}
    order = []
    gl = []
    for fn in sorted(os.listdir(contracts_dir)):
        if fn.endswith(".vspec"):
            sp, od, g = parse_vspec(os.path.join(contracts_dir, fn))
            for p in od:
                if p in specs:
                    raise ExtractError("duplicate spec for %s" % p)
            specs.update(sp)
            order += od
            gl += g
    W = Woven()
    log = []
    lemma_probes = []
    W.emit(open(os.path.join(contracts_dir, "header.rs")).read())
    W.emit("\nverus! {\n\n")
    W.emit("// ===== prelude (hand-written shims and axioms: trusted base) =====\n")
    W.emit(open(os.path.join(contracts_dir, "prelude.rs")).read())
    W.emit("\n// ===== types extracted from src/lib.rs and src/engine.rs =====\n")
    # --- types
    type_names = cfg["types_engine"]
    found = set()
    for it in S.eitems:
        if it.kind in ("enum", "struct", "type") and it.name in type_names:
            found.add(it.name)
            t = strip_attrs(S.etoks, it)
            derives = [a for a in it.attrs if a.startswith("#[derive")]
            keep = []
            for d in derives:
                names = re.findall(r"\w+", d[len("#[derive"):])
                names = [n for n in names if n in ("Copy", "Clone", "PartialEq", "Eq")]
                if names:
                    keep.append("#[derive(%s)]" % ", ".join(names))
            if it.kind == "type" and it.name == "GraphType":
                continue  # provided by the prelude shim (R7)
            W.emit("\n".join(keep) + ("\n" if keep else "") + t + "\n\n")
    missing = set(type_names) - found - {"GraphType"}
    if missing:
        raise ExtractError("types not found in engine.rs: %s" % sorted(missing))
    for it in S.litems:
        if it.kind == "enum" and it.name == "PPGEvaluatorError":
            t = strip_attrs(S.ltoks, it)
            # drop #[error(..)] attributes inside the enum (thiserror display strings)
            tt = tokenize(t)
            out = []
            k = 0
            while k < len(tt):
                if tt[k].text == "#":
                    j = next_sig(tt, k)
                    if tt[j].text == "[":
                        k = match_close(tt, j) + 1
                        continue
                out.append(tt[k].text)
                k += 1
            W.emit("".join(out) + "\n\n")
            log.append({"rule": "R-lib", "what": "PPGEvaluatorError: thiserror attributes dropped"})
    # R14: accessors for fields the contracts mention but the tree may lack (a field introduced by a repair):
    # `acc(E)` in contracts/spec.rs is rewritten to `E.field` when the extracted struct has the field; otherwise `acc` is
    # emitted as a spec function returning the stated constant
    r14 = []
    for of in cfg.get("optional_fields", []):
        st = [it for it in S.eitems if it.kind == "struct" and it.name == of["struct"]]
        has = bool(st) and re.search(r"\b%s\s*:" % re.escape(of["field"]), strip_attrs(S.etoks, st[0])) is not None
        if has:
            r14.append(of)
        else:
            W.emit("spec fn %s(x: %s) -> %s { %s }\n" % (of["accessor"], of["struct"], of["type"], of["absent"]))
        log.append({"rule": "R14", "what": "%s(x) = %s" % (of["accessor"], ("x.%s" % of["field"]) if has else
                                                            "%s (field %s.%s absent)" % (of["absent"], of["struct"], of["field"]))})
    W.emit("\n// ===== spec vocabulary (contracts/spec.rs) =====\n")
    spec_text = open(os.path.join(contracts_dir, "spec.rs")).read()
    for of in r14:
        spec_text = rewrite_accessor(spec_text, of["accessor"], of["field"])
    if vacuity:
        # probe every lemma: `assert(false)` as first statement of each `proof fn` body must fail
        out_lines = []
        pending = None
        for line in spec_text.split("\n"):
            mm = re.match(r"^\s*(?:pub\s+)?(?:broadcast\s+)?proof fn (\w+)", line)
            if mm:
                pending = mm.group(1)
            out_lines.append(line)
            if pending and line.strip() == "{":
                start_line = W.line + len(out_lines)
                out_lines.append("    assert(false); // VACUITY-PROBE lemma %s" % pending)
                lemma_probes.append((pending, start_line))
                pending = None
        spec_text = "\n".join(out_lines)
    W.emit(spec_text)
    W.emit("\n")

    # --- which fns
    contracted_names = set()
    for p in cfg["functions"]:
        sp = specs.get(p)
        if sp and sp.of("requires"):
            contracted_names.add(p.split("::")[-1])
    contracted_names |= {"unwrap"} - {"unwrap"}

    # R2b: outlined macros become free functions with the macro body verbatim
    for mname, mcfg in cfg.get("outline_macros", {}).items():
        md = S.macros.get(mname)
        if md is None:
            raise ExtractError("outlined macro %s not found in source (lost anchor)" % mname)
        body = md.body
        for pn in md.params:
            body = re.sub(r"\$" + pn + r"\b", pn, body)
        if "$" in body:
            raise ExtractError("outlined macro %s: unsubstituted $ in body" % mname)
        ptxt = ", ".join("%s: %s" % (pn, mcfg["params"][pn]) for pn in md.params)
        ftxt = "fn verif_macro_%s(%s) {%s}" % (mname, ptxt, body)
        ft = tokenize(ftxt)
        it = split_items(ft, 0, len(ft))[0]
        class _P:  # pseudo parent
            kind = "free"
            head_a = 0
            body_open = 0
        S.fns["macro %s" % mname] = (ft, it, None)
    # group functions by impl header to re-create impl blocks
    groups = []  # (header_text, [paths])
    for p in cfg["functions"]:
        if p not in S.fns:
            raise ExtractError("function %s not found in source (lost anchor)" % p)
        toks, item, parent = S.fns[p]
        if parent is None:
            hdr = "// outlined macro (R2b)"
        else:
            hdr = text(toks, parent.head_a, parent.body_open).strip()
        if groups and groups[-1][0] == hdr:
            groups[-1][1].append(p)
        else:
            groups.append((hdr, [p]))
    unused = set(specs) - set(cfg["functions"]) - set(k + "#body" for k in cfg.get("body_copies", {}))
    if unused:
        raise ExtractError("specs for functions not listed in units.json: %s" % sorted(unused))

    fn_records = []
    for hdr, paths in groups:
        hdr2 = hdr
        if hdr2.startswith("pub "):
            hdr2 = hdr2[4:]
        hdr2 = hdr2.replace("engine::", "")
        free = hdr2.startswith("//")
        W.emit("\n" + hdr2 + ("\n" if free else " {\n"))
        extra = cfg.get("trait_extra", {}).get(hdr2.split()[1] if hdr2.startswith("trait") else "", None)
        if extra:
            W.emit(open(os.path.join(contracts_dir, extra)).read() + "\n")
        def emit_fn(p, spec_key, rename):
            fid = spec_key
            toks, item, parent = S.fns[p]
            raw = strip_attrs(toks, item)
            if parent is None:
                mit = [x for x in S.eitems if x.kind == "macro_rules" and x.name == p.split()[1]][0]
                src_line = S.line_of(S.etoks, mit.head_a)
                src_end = S.line_of(S.etoks, mit.b - 1)
            else:
                src_line = S.line_of(toks, item.head_a)
                src_end = S.line_of(toks, item.b - 1)
            sites = []
            flog = []
            txt = raw
            if parent is not None and parent.kind == "impl" and not re.search(r"\bfor\b", hdr):
                txt = rules.lower_visibility(txt)
            for rs in cfg.get("region_subst", {}).get(p, []):
                tt = tokenize(txt)
                (a0, _b0) = find_anchor(tt, rs["from"], 1)[0]
                rest = tt[a0:]
                (a1, _b1) = find_anchor(rest, rs["until"], 1)[0]
                dropped = text(tt, a0, a0 + a1)
                txt = text(tt, 0, a0) + rs["with"] + text(tt, a0 + a1, len(tt))
                flog.append({"rule": rs["rule"], "region_dropped_sha256": hashlib.sha256(dropped.encode()).hexdigest(),
                             "region_lines": dropped.count("\n") + 1, "replaced_with": rs["with"].strip()})
            sp0 = specs.get(spec_key)
            keep_for = set(c.arg for c in sp0.of("loop") if c.name) if sp0 else set()
            force_raw = set(c.arg for c in sp0.of("rawloop")) if sp0 else set()
            txt = rewrite_item_text(txt, S, flog, sites, outline=cfg.get("outline_macros"), keep_for=keep_for, force_raw=force_raw)
            txt = txt.replace("engine::", "") if toks is S.ltoks else txt
            for (a, b) in cfg.get("text_subst", {}).get(p, []):
                if a not in txt:
                    raise ExtractError("%s: text_subst source not found: %r" % (p, a))
                txt = txt.replace(a, b)
                flog.append({"rule": "R7", "subst": [a, b]})
            sp = specs.get(spec_key) or FnSpec(spec_key, "-")
            # R16: hints follow a plain rename of local variables
            cur_locals = local_decls(txt)
            locals_now[spec_key] = cur_locals
            rm = rename_map(locals_base.get(spec_key), cur_locals, txt, sp) if spec_key in specs else {}
            if rm:
                sp = rename_spec(sp, rm)
                flog.append({"rule": "R16", "renamed": rm})
            for a in sp.attrs:
                W.emit("    " + a + "\n")
            if rename is None and p in cfg.get("external_body", {}):
                W.emit("    #[verifier::external_body] // ASSUMED: %s\n" % cfg["external_body"][p])
            if rename is not None:
                txt, nsub = re.subn(r"\bfn\s+%s\b" % re.escape(p.split("::")[-1]), "fn " + rename, txt, count=1)
                if nsub != 1:
                    raise ExtractError("%s: cannot rename for body copy" % p)
                flog.append({"rule": "R8b-copy", "renamed_to": rename})
            woven, obs = weave_function(txt, sp, fid, W, {"vacuity": vacuity, "log": flog}, None)
            base = W.line
            sobs = site_obligations(fid, woven, contracted_names)
            ghost_ranges = [(base + a, base + b) for (a, b) in weave_function.last_ghost]
            seen_ids = {}
            for o in obs + sobs:
                o["line_start"] = base + o.pop("rel_line_start")
                o["line_end"] = base + o.pop("rel_line_end")
                oid = "%s/%s%s:%s" % (fid, o["kind"], ("#%d" % o["loop"]) if "loop" in o else "", o["name"])
                seen_ids[oid] = seen_ids.get(oid, 0) + 1
                o["id"] = oid if seen_ids[oid] == 1 else "%s~%d" % (oid, seen_ids[oid])
                W.obligations.append(o)
            start = W.line
            W.emit(woven + "\n\n")
            fn_records.append({"path": fid, "verus_name": rename, "src_file": "src/lib.rs" if toks is S.ltoks else "src/engine.rs",
                               "src_line_start": src_line, "src_line_end": src_end,
                               "woven_line_start": start, "woven_line_end": W.line - 1,
                               "rules_applied": flog, "sites": sites, "ghost_ranges": ghost_ranges,
                               "has_contract": spec_key in specs})
            W.obligations.append({"fn": fid, "kind": "safety", "name": "", "tags": ["C06"],
                                  "id": "%s/safety" % fid,
                                  "text": "executable text: bounds, overflow, termination, preconditions of std "
                                          "functions (a failure here is a possible panic)",
                                  "line_start": start, "line_end": W.line - 1, "fallback": True})
            W.obligations.append({"fn": fid, "kind": "hints", "name": "", "tags": [],
                                  "id": "%s/hints" % fid,
                                  "text": "untagged woven proof hints of this function (a failure is attributed to every "
                                          "property the function's clauses are tagged with)",
                                  "line_start": start, "line_end": W.line - 1, "fallback": True, "union_tags": True})

        for p in paths:
            emit_fn(p, p, None)
            if p in cfg.get("body_copies", {}):
                # the same source function a second time, under another name, with its body verified against
                # the contract `<path>#body` (the first copy is what callers see)
                emit_fn(p, p + "#body", cfg["body_copies"][p])
        W.emit("\n" if free else "}\n")
    # global proof items (lemmas) from `=== spec` sections
    for g in gl:
        W.emit("\n" + g.body + "\n")
    W.emit("\n} // verus!\n\nfn main() {}\n")
    os.makedirs(out_dir, exist_ok=True)
    name = "woven_vacuity.rs" if vacuity else "woven.rs"
    with open(os.path.join(out_dir, name), "w") as f:
        f.write(W.text())
    ids = [o["id"] for o in W.obligations]
    dup = set(i for i in ids if ids.count(i) > 1)
    if dup:
        raise ExtractError("duplicate obligation ids: %s" % sorted(dup))
    for (nm, ln) in lemma_probes:
        W.obligations.append({"fn": "lemma " + nm, "kind": "vacuity", "name": "lemma", "tags": [], "text": "",
                              "id": "lemma %s/vacuity" % nm, "line_start": ln, "line_end": ln})
    meta = {"functions": fn_records, "obligations": W.obligations,
            "source_sha256": {"engine.rs": hashlib.sha256(S.engine.encode()).hexdigest(),
                              "lib.rs": hashlib.sha256(S.lib.encode()).hexdigest()},
            "macros": sorted(S.macros), "locals": locals_now}
    with open(os.path.join(out_dir, name.replace(".rs", ".map.json")), "w") as f:
        json.dump(meta, f, indent=1)
    return meta


def main():
    ap = argparse.ArgumentParser()
    ap.add_argument("--repo", default="/repo")
    ap.add_argument("--contracts", default="/verif/contracts")
    ap.add_argument("--out", required=True)
    ap.add_argument("--vacuity", action="store_true")
    ap.add_argument("--record-locals", action="store_true",
                    help="write contracts/locals.json (R16 baseline: the local declarations of every function under contract)")
    a = ap.parse_args()
    try:
        meta = build(a.repo, a.contracts, a.out, a.vacuity)
        if a.record_locals:
            json.dump(meta["locals"], open(os.path.join(a.contracts, "locals.json"), "w"), indent=1, sort_keys=True)
    except ExtractError as e:
        print("EXTRACT-ERROR: %s" % e, file=sys.stderr)
        sys.exit(2)
    print("extracted %d functions, %d obligations" % (len(meta["functions"]), len(meta["obligations"])))


if __name__ == "__main__":
    main()
