#!/bin/bash
# run every stored seeded change against every check; one summary line per seed
V="$(cd "$(dirname "$0")/.." && pwd)"
cd "$V"
for d in seeded/*/; do
  n=$(basename $d)
  out=$(tools/seed_run.sh $n 2>&1)
  viol=$(echo "$out" | grep -o "^\[C[0-9]*\] VIOLATION" | grep -o "C[0-9]*" | sort -u | tr '\n' ' ')
  und=$(echo "$out" | grep -c "UNDECIDED")
  reason=$(echo "$out" | grep UNDECIDED | head -1 | sed 's/.*reason=//' | cut -c1-120)
  echo "SEED $n violations=[$viol] undecided_checks=$und $reason"
done
