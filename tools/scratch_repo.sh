#!/bin/bash
# usage: scratch_repo.sh <dir> [patch]  -- plain copy of /repo HEAD sources (+patch) for experiments
rm -rf "$1"; mkdir -p "$1"; git -C /repo archive HEAD src Cargo.toml Cargo.lock | tar -x -C "$1"
if [ -n "$2" ]; then (cd "$1" && git init -q . && git apply "$2") || exit 2; fi
