#!/usr/bin/env python3
"""regenerates MANIFEST.json from contracts/claims.json + contracts/manifest_static.json"""
import json, os
V = os.path.dirname(os.path.dirname(os.path.abspath(__file__)))
claims = json.load(open(os.path.join(V, "contracts/claims.json")))
static = json.load(open(os.path.join(V, "contracts/manifest_static.json")))
props = [json.loads(l) for l in open(os.path.join(V, "properties.jsonl"))]
checks = []
na = []
for p in props:
    pid = p["id"]
    if pid in claims:
        c = claims[pid]
        checks.append({
            "property_id": pid,
            "quick_cmd": "./check %s quick" % pid,
            "thorough_cmd": "./check %s thorough" % pid,
            "evidence_file": "/verif/evidence/%s.json" % pid,
            "replay_cmd_template": "cat {path}",
            "engine": "verus-contracts",
            "level_claimed": {"category": "proof", "text": c["level_text"], "design_ref": c.get("design_ref", "DESIGN.md §7 " + pid)},
            "level_note": c["level_note"],
            "technique": c.get("technique", "contract-based deductive verification (Verus/Z3) of the mechanically extracted real functions"),
        })
    else:
        na.append({"property_id": pid, "reason": static["not_applicable"].get(pid, "contracts not completed")})
m = {"version": 1, "setup_cmd": static["setup_cmd"], "hooks": static["hooks"], "engines": static["engines"],
     "checks": checks, "not_applicable": na, "notes": static["notes"]}
json.dump(m, open(os.path.join(V, "MANIFEST.json"), "w"), indent=1)
print("manifest: %d checks, %d not applicable" % (len(checks), len(na)))
