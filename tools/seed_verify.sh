#!/bin/bash
# usage: seed_verify.sh <ID>  -- confirm a seeded change in its scratch worktree (/tmp/wt_<ID>, /tmp/seed_<ID>)
ID=$1; WT=/tmp/wt_$ID; SD=/tmp/seed_$ID
cd $WT || exit 2
git checkout -q -- src/tests.rs
git diff --quiet -- src/engine.rs && { echo "no patch applied in worktree"; git apply $SD/patch.diff || exit 2; }
git diff -- src/engine.rs > /tmp/seed_$ID/patch.check.diff
A=$(cargo test --offline --lib 2>&1 | grep "test result" | head -1)
echo "with patch, original tests: $A"
cat $SD/demo_test.rs >> src/tests.rs
B=$(cargo test --offline --lib 2>&1 | grep "test result" | head -1)
echo "with patch, + demo: $B"
git stash -q -- src/engine.rs
C=$(cargo test --offline --lib 2>&1 | grep "test result" | head -1)
echo "without patch, + demo: $C"
git stash pop -q
git checkout -q -- src/tests.rs
