#!/bin/bash
# usage: seed_verify.sh <TAG>  -- confirm a seeded change in its scratch worktree (/tmp/wt_<TAG>, /tmp/seed_<TAG>)
ID=$1; WT=/tmp/wt_$ID; SD=/tmp/seed_$ID
cd $WT || exit 2
git checkout -q -- src/tests.rs src/engine.rs
A0=$(cargo test --offline --lib 2>&1 | grep "test result" | head -1)
git apply $SD/patch.diff || { echo "patch does not apply"; exit 2; }
A=$(cargo test --offline --lib 2>&1 | grep "test result" | head -1)
echo "with patch, original tests: $A"
cat $SD/demo_test.rs >> src/tests.rs
B=$(cargo test --offline --lib 2>&1 | grep "test result" | head -1)
echo "with patch, + demo: $B"
git checkout -q -- src/engine.rs
C=$(cargo test --offline --lib 2>&1 | grep "test result" | head -1)
echo "without patch, + demo: $C"
git checkout -q -- src/tests.rs
