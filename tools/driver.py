#!/usr/bin/env python3
"""check driver: extract+weave from /repo's working tree, run Verus (cached per source hash),
map diagnostics to named obligations, decide one property, write evidence, print verdict.

usage: driver.py <PROPERTY_ID> <quick|thorough>
exit 0 property held on everything decided; 1 VIOLATION; 2 undecided (tool limit, lost anchor ...)
"""
import fcntl
import hashlib
import json
import os
import re
import shutil
import subprocess
import sys
import time

VERIF = os.path.dirname(os.path.dirname(os.path.abspath(__file__)))
REPO = os.environ.get("VERIF_REPO", "/repo")
CONTRACTS = os.path.join(VERIF, "contracts")
CACHE = os.environ.get("VERIF_CACHE") or os.path.join(VERIF, ".cache")
REPLAYS = os.environ.get("VERIF_REPLAYS") or os.path.join(VERIF, "replays")
EVIDENCE = os.environ.get("VERIF_EVIDENCE") or os.path.join(VERIF, "evidence")
sys.path.insert(0, os.path.join(VERIF, "tools"))
import extract  # noqa: E402
from rstok import ExtractError  # noqa: E402

VERUS_FLAGS = ["--triggers-mode", "silent", "--multiple-errors", "50", "--error-format=json",
               "--output-json", "--time", "--rlimit", "800"]


def sha_tree():
    h = hashlib.sha256()
    for p in [os.path.join(REPO, "src/engine.rs"), os.path.join(REPO, "src/lib.rs")]:
        h.update(open(p, "rb").read())
    for d in (CONTRACTS, os.path.join(VERIF, "tools")):
        for fn in sorted(os.listdir(d)):
            fp = os.path.join(d, fn)
            if os.path.isfile(fp) and not fn.endswith(".pyc"):
                h.update(fn.encode())
                h.update(open(fp, "rb").read())
    kf = os.path.join(VERIF, "known_findings.jsonl")
    v = subprocess.run(["verus", "--version"], capture_output=True, text=True).stdout
    h.update(v.encode())
    h.update(("seed=%d" % (int(os.environ.get("VERIF_SEED", "0")) % 100000)).encode())   # a run under another solver seed is another run
    return h.hexdigest()[:24]


def run_verus(path, extra=None, timeout=int(os.environ.get("VERIF_VERUS_CAP_S", "1500"))):
    flags = list(VERUS_FLAGS)
    extra = list(extra or [])
    if "--rlimit" in extra:     # an explicit limit replaces the default one (verus rejects a repeated option)
        i = flags.index("--rlimit")
        del flags[i:i + 2]
    cmd = ["verus", path] + flags + extra
    t0 = time.time()
    # wall-clock cap: on a changed tree the solver may search up to its resource limit once per further error of a function that
    # already has a refuted obligation (tens of minutes each).  The run is then stopped and the diagnostics delivered so far are
    # used: a refuted obligation is a verdict of the solver whether or not the rest of the file was examined.
    pr = subprocess.Popen(cmd, stdout=subprocess.PIPE, stderr=subprocess.PIPE, text=True, start_new_session=True)
    timed_out = False
    try:
        so, se = pr.communicate(timeout=timeout)
    except subprocess.TimeoutExpired:
        timed_out = True
        try:
            os.killpg(pr.pid, 9)
        except Exception:
            pr.kill()
        so, se = pr.communicate()

    class _P:
        pass
    p = _P()
    p.stdout, p.stderr, p.returncode = so or "", se or "", pr.returncode
    wall = time.time() - t0
    diags = []
    for line in p.stderr.split("\n"):
        line = line.strip()
        if not line.startswith("{"):
            continue
        try:
            d = json.loads(line)
        except Exception:
            continue
        diags.append(d)
    try:
        out = json.loads(p.stdout)
    except Exception:
        out = None
    return {"cmd": " ".join(cmd), "wall_s": wall, "rc": p.returncode, "diags": diags, "out": out, "timed_out": timed_out,
            "stderr_tail": "\n".join(l for l in p.stderr.split("\n") if not l.startswith("{"))[-3000:]}


def fn_breakdown(out):
    res = {}
    if not out:
        return res
    for m in out.get("times-ms", {}).get("smt", {}).get("smt-run-module-times", []):
        for f in m.get("function-breakdown", []):
            res[f["function"]] = {"ms": f["time"], "rlimit": f["rlimit"], "success": f["success"],
                                  "mode": f.get("mode:", "")}
    return res


VERIFICATION_FAILURES = ("precondition not satisfied", "precondition not met", "postcondition not satisfied", "invariant not satisfied",
                         "assertion failed", "assertion not satisfied", "decreases not satisfied",
                         "could not prove termination", "possible arithmetic underflow/overflow",
                         "possible division by zero", "possible bit shift underflow/overflow",
                         "unable to prove this pattern will successfully match",
                         "unable to prove post-condition of closure")


def map_diags(meta, diags, woven_name):
    """returns (failed: {obligation_id: [messages]}, tool_errors: [str], lemma_failures: [str])"""
    obs = meta["obligations"]
    fns = meta["functions"]
    failed = {}
    tool = []
    lemma = []
    site_clause = {}
    rlimits = []

    def add(oid, msg):
        failed.setdefault(oid, [])
        if msg not in failed[oid]:
            failed[oid].append(msg)

    byid = {o["id"]: o for o in obs}

    def in_ranges(L, ranges):
        return any(a <= L <= b for (a, b) in ranges)

    for d in diags:
        if d.get("level") != "error":
            continue
        msg = d.get("message", "")
        if msg.startswith("aborting due to"):
            continue
        spans = [s for s in d.get("spans", []) if s.get("file_name", "").endswith(woven_name)]
        if not spans:
            tool.append(msg)
            continue
        ml = msg.lower()
        if "rlimit" in ml or "resource limit" in ml:
            # decided below: Verus keeps searching for further errors after the first failed obligation of a function and
            # may exhaust the budget doing so; that does not undo the obligation it has already refuted
            fr = [x for x in fns if x["woven_line_start"] <= spans[0]["line_start"] <= x["woven_line_end"]]
            rlimits.append((fr[0]["path"] if fr else None, "%s @%d" % (msg, spans[0]["line_start"])))
            continue
        if d.get("code") is not None \
                or "not supported" in ml or "unsupported" in ml or "not yet support" in ml \
                or "does not support" in ml or "not implemented" in ml or "unexpected token" in ml \
                or ml.startswith("expected ") or "cannot find" in ml:
            tool.append("%s @%d" % (msg, spans[0]["line_start"]))
            continue
        # only what the SMT back end decided counts as a failed obligation; every other error (a recursion or loop
        # that has no `decreases` yet, a mode or type error in woven text, ...) means "needs contract": undecided
        if not any(x in ml for x in VERIFICATION_FAILURES):
            tool.append("%s @%d" % (msg, spans[0]["line_start"]))
            continue
        rendered = (d.get("rendered") or msg)[:1500]
        prim = [s for s in spans if s.get("is_primary")] or spans
        sec = [s for s in spans if not s.get("is_primary")]
        L = prim[0]["line_start"]

        def obs_at(line, kinds=None):
            r = []
            for o in obs:
                if o.get("fallback"):
                    continue
                if kinds and o["kind"] not in kinds:
                    continue
                if o["line_start"] <= line <= o["line_end"]:
                    r.append(o)
            return r

        f = [x for x in fns if x["woven_line_start"] <= L <= x["woven_line_end"]]
        if not f:
            lemma.append("%s @%d" % (msg, L))
            continue
        fpath = f[0]["path"]
        # 0. "invariant/postcondition not satisfied" reported at a `continue`, `break`, `return` or loop entry:
        #    the primary span is exec text, the failed clause is a secondary span labelled "failed this ..."
        direct = []
        for s in sec:
            lab = (s.get("label") or "").lower()
            if "failed this" in lab and ("invariant" in lab or "postcondition" in lab):
                direct += [o for o in obs_at(s["line_start"]) if o["kind"] not in ("site", "loop-header", "requires")]
        if direct:
            for o in direct:
                add(o["id"] if o["tags"] else "%s/hints" % fpath, rendered)
            continue
        # 1. the primary span is a registered clause / tagged hint (failed ensures, invariant, hint)
        direct = [o for o in obs_at(L) if o["kind"] not in ("site", "loop-header")]
        if not direct:
            direct = [o for o in obs_at(L) if o["kind"] == "loop-header"]
        # "postcondition not satisfied": primary is the ensures clause; "invariant not satisfied": the clause
        if direct:
            for o in direct:
                # an untagged clause (frame, bookkeeping) supports every tagged clause of its function
                add(o["id"] if (o["tags"] or o["kind"] in ("requires", "vacuity")) else "%s/hints" % fpath, rendered)
            continue
        # 2. untagged ghost text of this function
        if in_ranges(L, f[0].get("ghost_ranges", [])):
            add("%s/hints" % fpath, rendered)
            continue
        # 3. executable text: a registered site, else the function's safety obligation
        sites = [o for o in obs_at(L, ("site",))]
        if sites:
            for o in sites:
                add(o["id"], rendered)
                # a failed `requires` of a contracted callee: remember which clause (its tags decide)
                for s in sec:
                    for c in obs_at(s["line_start"], ("requires",)):
                        site_clause.setdefault(o["id"], set()).add(c["id"])
            continue
        add("%s/safety" % fpath, rendered)
    for fpath, m in rlimits:
        if fpath is None or not any(k.startswith(fpath + "/") for k in failed):
            tool.append(m)
    map_diags.site_clause = {k: sorted(v) for k, v in site_clause.items()}
    return failed, tool, lemma


def scan_trusted(woven_text):
    pats = [("assume(", r"\bassume\s*\("), ("admit(", r"\badmit\s*\("),
            ("external_body", r"external_body"), ("assume_specification", r"assume_specification"),
            ("axiom", r"\baxiom\s+fn\s+(\w+)"), ("uninterp", r"uninterp\s+spec\s+fn\s+(\w+)"),
            ("exec_allows_no_decreases_clause", r"exec_allows_no_decreases_clause")]
    res = []
    lines = woven_text.split("\n")
    for i, line in enumerate(lines, 1):
        code = line.split("//")[0]
        for name, pat in pats:
            m = re.search(pat, code)
            if m:
                ctx = line.strip()
                if name in ("external_body", "assume_specification", "exec_allows_no_decreases_clause"):
                    # add the following signature line for readability
                    for j in range(i, min(i + 4, len(lines))):
                        if re.search(r"\bfn\b|\bstruct\b|assume_specification", lines[j]):
                            ctx = lines[j].strip()
                            break
                res.append("%s: %s" % (name, ctx[:160]))
    return sorted(set(res))


def compute(tier):
    key = sha_tree()
    cdir = os.path.join(CACHE, key)
    os.makedirs(CACHE, exist_ok=True)
    lock = open(os.path.join(CACHE, ".lock"), "w")
    fcntl.flock(lock, fcntl.LOCK_EX)
    try:
        rp = os.path.join(cdir, "result.json")
        if os.path.exists(rp):
            r = json.load(open(rp))
            if tier == "quick" or r.get("tier") == "thorough":
                r["from_cache"] = True
                return r
        # prune old cache entries
        for d in os.listdir(CACHE):
            if d != key and os.path.isdir(os.path.join(CACHE, d)):
                shutil.rmtree(os.path.join(CACHE, d), ignore_errors=True)
        os.makedirs(cdir, exist_ok=True)
        t0 = time.time()
        res = {"tier": tier, "key": key, "tool_errors": [], "from_cache": False}
        try:
            meta = extract.build(REPO, CONTRACTS, cdir, vacuity=False)
            vmeta = extract.build(REPO, CONTRACTS, cdir, vacuity=True)
        except ExtractError as e:
            res["tool_errors"].append("extraction: %s" % e)
            res["wall_s"] = time.time() - t0
            json.dump(res, open(rp, "w"))
            return res
        seed = int(os.environ.get("VERIF_SEED", "0")) % 100000
        main = run_verus(os.path.join(cdir, "woven.rs"), ["--smt-option", "smt.random_seed=%d" % seed])
        failed, tool, lemma = map_diags(meta, main["diags"], "woven.rs")
        res["site_clause"] = map_diags.site_clause
        if main["out"] is None and main.get("timed_out") and failed:
            # stopped at the wall-clock cap with refuted obligations in hand: those are decided; what was not reached is not
            # claimed either way (the evidence says so)
            res["stopped_early"] = "verus stopped after %.0f s (cap) with %d refuted obligation(s); the rest of the file was not examined" % (
                main["wall_s"], len(failed))
        elif main["out"] is None:
            tool.append("verus produced no result json%s: %s" % (" (stopped at the wall-clock cap)" if main.get("timed_out") else "",
                                                                 main["stderr_tail"][-800:]))
        vr = (main["out"] or {}).get("verification-results") or {}
        if main["out"] is not None and not failed and not tool and not (vr.get("success") and vr.get("errors") == 0 and vr.get("verified", 0) > 0):
            # e.g. the solver process died: Verus then reports `encountered-error` without any diagnostic and without per-function
            # results - that is no verdict
            tool.append("verus did not report success (%s) although no failed obligation was identified: %s"
                        % (json.dumps(vr), main["stderr_tail"][-300:] or "no diagnostic"))
        fb = fn_breakdown(main["out"])
        if main["out"] is not None and not failed and not tool:
            missing = [f["path"] for f in meta["functions"] if f["path"] not in json.load(open(os.path.join(CONTRACTS, "units.json"))).get("external_body", {})
                       and not f["path"].startswith("trait ") and ("woven::" + f["path"]) not in fb]
            res["functions_without_solver_result"] = missing
        # functions verus reports as failed but without a mapped diagnostic -> safety obligation
        for f in meta["functions"]:
            nm = "woven::" + f["path"].replace("trait ", "")
            st = fb.get(nm)
            if st is not None and not st["success"]:
                if not any(oid.startswith(f["path"] + "/") for oid in failed):
                    failed.setdefault(f["path"] + "/safety", []).append("verus reports the function as not verified")
        # thorough: retry failed obligations with other seeds and a doubled rlimit -> unstable => tool error
        unstable = []
        seeds_run = [seed]
        if tier == "thorough":
            # two more solver seeds with a doubled resource limit, whether or not anything failed: an obligation refuted under
            # one seed and discharged under another is unstable (undecided, never an alarm); so is one discharged here and
            # refuted under another seed
            still = None
            ever = set()
            for k in (1, 2):
                alt = run_verus(os.path.join(cdir, "woven.rs"),
                                ["--smt-option", "smt.random_seed=%d" % (seed + k), "--rlimit", "1600"])
                f2, _, _ = map_diags(meta, alt["diags"], "woven.rs")
                if alt["out"] is None:
                    # the retry did not run: it says nothing about stability
                    tool.append("run with another seed produced no result json: %s" % alt["stderr_tail"][-300:])
                    f2 = dict(failed)
                seeds_run.append(seed + k)
                still = set(f2) if still is None else (still & set(f2))
                ever |= set(f2)
            for oid in list(failed):
                if oid not in still:
                    unstable.append(oid)
            for oid in sorted(ever - set(failed)):
                unstable.append(oid)
                failed.setdefault(oid, []).append("refuted only under another solver seed")
        res["seeds_run"] = seeds_run
        # thorough: self-test of rule R11w - every labelled `for` loop desugared the way Verus desugars it must give
        # exactly the same verdicts as the `for` form
        forced = None
        if tier == "thorough":
            fdir = os.path.join(cdir, "forced")
            try:
                extract.FORCE_DESUGAR = True
                fmeta = extract.build(REPO, CONTRACTS, fdir, vacuity=False)
            except ExtractError as e:
                fmeta = None
                tool.append("R11w self-test: extraction failed: %s" % e)
            finally:
                extract.FORCE_DESUGAR = False
            if fmeta is not None:
                fr = run_verus(os.path.join(fdir, "woven.rs"), ["--smt-option", "smt.random_seed=%d" % seed, "--rlimit", "800"])
                ff, ftool, _ = map_diags(fmeta, fr["diags"], "woven.rs")
                if fr["out"] is None:
                    ftool.append("verus produced no result json: %s" % fr["stderr_tail"][-300:])
                n_loops = sum(1 for f in fmeta["functions"] for x in f["rules_applied"] if x["rule"] == "R11w")
                forced = {"loops_desugared": n_loops, "wall_s": round(fr["wall_s"], 1),
                          "same_verdicts": set(ff) == set(failed) and not ftool,
                          "differences": sorted(set(ff) ^ set(failed))[:10], "tool_errors": ftool[:3]}
                if not forced["same_verdicts"]:
                    tool.append("R11w self-test: the desugared loop form gives different verdicts: %s %s"
                                % (forced["differences"], ftool[:2]))
        vac = run_verus(os.path.join(cdir, "woven_vacuity.rs"))
        vfailed, vtool, _ = map_diags(vmeta, vac["diags"], "woven_vacuity.rs")
        if vac["out"] is None:
            vtool.append("vacuity run produced no result json: %s" % vac["stderr_tail"][-300:])
        vlines = set()
        for dd in vac["diags"]:
            if dd.get("level") == "error":
                for sp in dd.get("spans", []):
                    vlines.add(sp.get("line_start"))
        for o in vmeta["obligations"]:
            if o["kind"] == "vacuity" and o["name"] == "lemma" and o["line_start"] in vlines:
                vfailed[o["id"]] = ["failed as expected"]
        ext_body = set(json.load(open(os.path.join(CONTRACTS, "units.json"))).get("external_body", {}))
        probes = [o for o in vmeta["obligations"] if o["kind"] == "vacuity" and o["fn"] not in ext_body]
        vacuous = [o["id"] for o in probes if o["id"] not in vfailed]
        woven_text = open(os.path.join(cdir, "woven.rs")).read()
        res["witnesses"] = run_witnesses(cdir)
        kneed = sorted(set(h for h in (kani_harness_of(oid) for oid in failed) if h))
        if tier == "thorough":
            kneed = KANI_ALL
        res["kani"] = run_kani(kneed) if kneed else {}
        res.update({
            "meta": meta,
            "failed": failed,
            "unstable": unstable,
            "lemma_failures": lemma,
            "tool_errors": tool + (["vacuity run: " + x for x in vtool] if vac["out"] is None else []),
            "fn_breakdown": fb,
            "verus_summary": (main["out"] or {}).get("verification-results"),
            "verus_cmd": main["cmd"],
            "verus_wall_s": main["wall_s"],
            "smt_ms": ((main["out"] or {}).get("times-ms", {}).get("smt", {}) or {}).get("total"),
            "vacuity": {"probes": len(probes), "failed_as_expected": len(probes) - len(vacuous),
                        "vacuous": vacuous, "wall_s": vac["wall_s"]},
            "trusted_scan": scan_trusted(woven_text),
            "r11w_selftest": forced,
            "woven_path": os.path.join(cdir, "woven.rs"),
            "wall_s": time.time() - t0,
            "seed": seed,
        })
        json.dump(res, open(rp, "w"))
        return res
    finally:
        fcntl.flock(lock, fcntl.LOCK_UN)


def run_witnesses(cdir):
    """build the replay crate against the current tree and run every witness scenario"""
    rdir = os.path.join(VERIF, "replay")
    tdir = os.path.join(CACHE, "replay_target") if os.environ.get("VERIF_CACHE") else os.path.join(rdir, "target")
    env = dict(os.environ, CARGO_NET_OFFLINE="true", VERIF_REPO=REPO, CARGO_TARGET_DIR=tdir)
    try:
        b = subprocess.run(["cargo", "build", "--release", "--offline"], cwd=rdir, env=env, capture_output=True,
                           text=True, timeout=900)
        if b.returncode != 0:
            return {"error": "replay crate does not build: " + b.stderr[-600:]}
        r = subprocess.run([os.path.join(tdir, "release/ppg2_replay")], capture_output=True, text=True,
                           timeout=300)
        out = {}
        for line in r.stdout.split("\n"):
            line = line.strip()
            if line.startswith("{"):
                try:
                    d = json.loads(line)
                    out[d["witness"]] = d
                except Exception:
                    pass
        return out
    except Exception as e:  # noqa
        return {"error": str(e)}


KANI_HARNESS = {
    "is_finished/ensures:table": "table_is_finished",
    "is_failed/ensures:table": "table_is_failed",
    "is_upstream_failure/ensures:table": "table_is_upstream_failure",
}
KANI_ALL = ["enumeration_is_bijective", "derived_eq_is_structural", "table_is_finished", "table_is_failed",
            "table_is_upstream_failure"]


def kani_harness_of(oid):
    for suffix, h in KANI_HARNESS.items():
        if oid.endswith(suffix):
            return h
    return None


def run_kani(harnesses):
    """Kani cross-check (second back end, CBMC): loop-free harnesses over the complete finite domain of the state
    enums, on the repository's engine.rs included untouched.  Returns per harness: verified / counterexample codes
    (from Kani's concrete playback) / the concrete replay of those codes on the real code."""
    kdir = os.path.join(VERIF, "kani")
    tdir = os.path.join(CACHE, "kani_target")
    env = dict(os.environ, CARGO_NET_OFFLINE="true", VERIF_REPO=REPO)
    out = {}
    try:
        shutil.copy(os.path.join(REPO, "Cargo.lock"), os.path.join(kdir, "Cargo.lock"))
    except Exception:
        pass
    for h in harnesses:
        t0 = time.time()
        try:
            p = subprocess.run(["cargo", "kani", "--target-dir", tdir, "-Z", "concrete-playback", "--concrete-playback=print",
                                "--harness", h], cwd=kdir, env=env, capture_output=True, text=True, timeout=1800)
        except Exception as e:  # noqa
            out[h] = {"error": str(e)}
            continue
        txt = p.stdout + p.stderr
        ok = "VERIFICATION:- SUCCESSFUL" in txt
        failed = "VERIFICATION:- FAILED" in txt
        codes = []
        m = re.search(r"let concrete_vals: Vec<Vec<u8>> = vec!\[(.*?)\];", txt, re.S)
        if m:
            codes = [int(x) for x in re.findall(r"vec!\[(\d+)\]", m.group(1))]
        rec = {"verified": ok, "failed": failed, "wall_s": round(time.time() - t0, 1), "counterexample_codes": codes,
               "cmd": "cargo kani --harness %s (in /verif/kani, engine.rs of %s included untouched)" % (h, REPO)}
        if not ok and not failed:
            rec["error"] = txt[-600:]
        if codes:
            try:
                q = subprocess.run(["cargo", "run", "--offline", "--release", "--target-dir", os.path.join(CACHE, "kani_replay_target"),
                                    "--bin", "replay_tables", "--"] + [str(c) for c in codes],
                                   cwd=kdir, env=env, capture_output=True, text=True, timeout=900)
                rec["replay_on_real_code"] = [json.loads(l) for l in q.stdout.split("\n") if l.strip().startswith("{")]
            except Exception as e:  # noqa
                rec["replay_error"] = str(e)
        out[h] = rec
    return out


def strip_tags(oid):
    """obligation ids carry their property tags in brackets; findings / witnesses are keyed without them"""
    return re.sub(r"\[[A-Z0-9,]*\]", "", oid)


def load_known():
    p = os.path.join(VERIF, "known_findings.jsonl")
    out = []
    if os.path.exists(p):
        for line in open(p):
            line = line.strip()
            if line and not line.startswith("#"):
                out.append(json.loads(line))
    return out


def main():
    if len(sys.argv) < 3:
        print("usage: check <PROPERTY> <quick|thorough>")
        sys.exit(2)
    pid, tier = sys.argv[1], sys.argv[2]
    t0 = time.time()
    seed = int(os.environ.get("VERIF_SEED", "0"))
    claims = json.load(open(os.path.join(CONTRACTS, "claims.json")))
    if pid not in claims:
        print("property %s is not claimed" % pid)
        sys.exit(2)
    claim = claims[pid]
    undecided = json.load(open(os.path.join(CONTRACTS, "undecided.json")))
    evid_path = os.path.join(EVIDENCE, "%s.json" % pid)
    os.makedirs(os.path.dirname(evid_path), exist_ok=True)
    r = compute(tier)

    def write_evidence(cov, violations, assumptions):
        ev = {"property_id": pid, "tier": tier, "seed": seed, "level": "proof", "coverage": cov,
              "assumptions": assumptions, "wall_s": round(time.time() - t0, 3), "violations": violations}
        json.dump(ev, open(evid_path, "w"), indent=1)

    base_assumptions = claim.get("assumptions", [])
    if "meta" not in r:
        write_evidence({"evaluations": 1, "distinct_nontrivial": 2, "explanation":
                        "UNDECIDED: " + "; ".join(r["tool_errors"]), "obligations": 0, "discharged": 0,
                        "checker_cmd": "tools/extract.py", "trusted_base": []}, 0, base_assumptions)
        print("UNDECIDED property=%s reason=%s" % (pid, "; ".join(r["tool_errors"])[:400]))
        sys.exit(2)
    meta = r["meta"]
    und_ids = set(u["obligation"] for u in undecided)
    # ---- obligations of this property
    fn_tags = {}
    byid = {o["id"]: o for o in meta["obligations"]}
    for o in meta["obligations"]:
        # what an untagged hint of a function can support: its own clauses and tagged hints - not its `requires` (they are
        # obligations of the callers)
        if not o.get("fallback") and o["kind"] != "requires":
            fn_tags.setdefault(o["fn"], set()).update(o["tags"])
    site_clause = r.get("site_clause", {})
    failed_fn_tags = {}
    for oid in r.get("failed", {}):
        fo = byid.get(oid)
        if fo is not None and not fo.get("fallback") and fo["kind"] not in ("requires", "site") and fo["tags"]:
            failed_fn_tags.setdefault(fo["fn"], set()).update(fo["tags"])
    mine = []
    for o in meta["obligations"]:
        if o["kind"] == "vacuity" or o["id"] in und_ids:
            continue
        if o.get("union_tags"):
            # untagged hints support every tagged clause of their function; when tagged clauses of the same function are
            # refuted in the same run, the failing untagged text (a frame invariant at a new `continue`, a hint that no longer
            # fits) is collateral of those and is attributed to their properties only
            narrowed = failed_fn_tags.get(o["fn"])
            if pid in (narrowed if narrowed else fn_tags.get(o["fn"], ())):
                mine.append(o)
        elif o["kind"] == "site" and o["name"].startswith("call:"):
            # a call to a contracted function: belongs to the properties of the callee's requires clauses;
            # when it fails, only to those of the clause that failed
            callee = o["name"][5:].split("#")[0]
            ctags = set()
            failed_clauses = site_clause.get(o["id"])
            for c in meta["obligations"]:
                if c["kind"] == "requires" and c["fn"].split("::")[-1].split(" ")[-1] == callee:
                    if failed_clauses is None or c["id"] in failed_clauses:
                        ctags.update(c["tags"])
            if pid in ctags or (pid == "C06" and failed_clauses is not None and not ctags):
                mine.append(o)
        elif pid in o["tags"]:
            mine.append(o)
    failed = r["failed"]
    known = [k for k in load_known() if k.get("status") == "known" and k["property"] == pid]
    known_ids_s = {strip_tags(k["obligation"]): k for k in known}
    known_ids = {o["id"]: known_ids_s[strip_tags(o["id"])] for o in meta["obligations"] if strip_tags(o["id"]) in known_ids_s}
    viol = []
    kf_lines = []
    for o in mine:
        if o["id"] in failed:
            if o["id"] in r.get("unstable", []):
                continue
            k = known_ids.get(o["id"])
            w = r.get("witnesses", {}).get(k.get("witness", "")) if k else None
            if k and (w is None or w.get("fails")):
                # listed finding; its concrete witness (if any) still fails on the real code
                kf_lines.append(dict(k, witness_result=w))
            else:
                # not listed, or listed but its witness no longer fails: a different violation
                viol.append(o)
    # a known finding that no longer fails is simply discharged (nothing is suppressed)
    fns_of = sorted(set(o["fn"] for o in mine))
    fb = r["fn_breakdown"]
    fn_info = []
    frec = {f["path"]: f for f in meta["functions"]}
    for p in fns_of:
        st = fb.get("woven::" + p.replace("trait ", ""), {})
        fn_info.append({"function": p, "source": "%s:%d-%d" % (frec[p]["src_file"], frec[p]["src_line_start"],
                                                                frec[p]["src_line_end"]),
                        "smt_ms": st.get("ms"), "rlimit": st.get("rlimit"), "verified": st.get("success"),
                        "rules_applied": sorted(set(x["rule"] for x in frec[p]["rules_applied"]))})
    tool_errors = list(r["tool_errors"])
    if r.get("stopped_early"):
        # obligations not refuted by then were not necessarily examined: without a violation of its own this property is undecided
        tool_errors.append(r["stopped_early"])
    if r["lemma_failures"]:
        tool_errors.append("spec lemma failed: " + "; ".join(r["lemma_failures"])[:300])
    has_table = any(kani_harness_of(o["id"]) for o in mine)
    for h, krec in (r.get("kani") or {}).items():
        if krec.get("error"):
            # the cross-check / counterexample is missing; the Verus verdict stands.  Only the thorough tier, whose
            # claim includes the cross-check, counts this as undecided - and only for properties it serves
            if tier == "thorough" and has_table:
                tool_errors.append("kani harness %s did not run: %s" % (h, str(krec["error"])[-200:]))
        elif has_table and krec.get("failed") and not any(kani_harness_of(oid) == h for oid in failed):
            tool_errors.append("kani harness %s fails although the Verus obligations it cross-checks pass (assumption A-derive "
                               "or the enumeration of states is broken)" % h)
    vac_mine = [v for v in r["vacuity"]["vacuous"] if v.split("/")[0] in fns_of]
    if vac_mine:
        tool_errors.append("vacuity probe verified (contradictory precondition/invariant): %s" % vac_mine)
    unstable_mine = [o["id"] for o in mine if o["id"] in r.get("unstable", [])]
    if unstable_mine:
        tool_errors.append("unstable obligations (pass under another seed): %s" % unstable_mine)
    n_ob = len(mine) - len([o for o in mine if o["id"] in known_ids and o["id"] in failed])
    n_dis = len([o for o in mine if o["id"] not in failed])
    samples = [{"obligation": o["id"], "kind": o["kind"], "clause": o["text"][:240],
                "woven_lines": [o["line_start"], o["line_end"]]} for o in mine if not o.get("fallback")][:6]
    cov = {
        "obligations": n_ob, "discharged": n_dis,
        "checker_cmd": r["verus_cmd"],
        "trusted_base": r["trusted_scan"] + claim.get("trusted_extra", []),
        "samples": samples,
        "functions_under_contract": fn_info,
        "back_end": "Verus 0.2026.09.13 / Z3 (all obligations of this property)",
        "solver_ms_total": r["smt_ms"], "verus_wall_s": r["verus_wall_s"],
        "verus_summary": r["verus_summary"],
        "vacuity_probes": r["vacuity"],
        "undecided_sites": [u for u in undecided if u["obligation"].split("/")[0] in fns_of],
        "known_findings_hit": [{"obligation": k["obligation"], "witness": k.get("witness"),
                                "witness_result": k.get("witness_result")} for k in kf_lines],
        "witness_replays": r.get("witnesses"),
        "r11w_selftest": r.get("r11w_selftest") or "thorough tier only",
        "solver_seeds_run": r.get("seeds_run") or [int(os.environ.get("VERIF_SEED", "0")) % 100000],
        "kani_crosscheck": r.get("kani") or "not run in this tier (thorough runs all five harnesses; quick runs one only to "
                                            "obtain a counterexample for a failed table obligation)",
        "not_decided_clauses": claim.get("not_decided", []),
        "unchecked_regions": claim.get("unchecked_regions", []),
        "results_from_cache": r.get("from_cache", False),
        "stopped_early": r.get("stopped_early"),
        "source_sha256": meta["source_sha256"],
        "explanation": claim.get("explanation", ""),
    }
    os.makedirs(REPLAYS, exist_ok=True)
    rc = 0
    hard_tool = []
    for t in r["tool_errors"]:
        mm = re.search(r"@(\d+)$", t)
        if mm and ("rlimit" in t.lower() or "resource limit" in t.lower()):
            L = int(mm.group(1))
            owner = [f["path"] for f in meta["functions"] if f["woven_line_start"] <= L <= f["woven_line_end"]]
            if owner and owner[0] not in fns_of:
                continue  # a solver limit in a function this property does not depend on
        hard_tool.append(t)
    if hard_tool:
        # the verifier did not get as far as checking obligations (unsupported construct, syntax or
        # resolution error in the woven file, solver limit): nothing is decided
        cov["explanation"] = "UNDECIDED: " + "; ".join(hard_tool)[:600]
        cov["violated_obligations"] = []
        write_evidence(cov, 0, base_assumptions)
        print("UNDECIDED property=%s reason=%s" % (pid, cov["explanation"][:400]))
        sys.exit(2)
    for k in kf_lines:
        print("KNOWN-FINDING: property=%s %s" % (pid, k["what"]))
    for o in viol:
        rp = os.path.join(REPLAYS, "%s-%s.json" % (pid, re.sub(r"[^A-Za-z0-9_.#-]+", "_", o["id"])))
        f = frec[o["fn"]]
        wmap = {strip_tags(k): v for k, v in json.load(open(os.path.join(CONTRACTS, "witness_map.json"))).items()}
        wit = [r.get("witnesses", {}).get(w) for w in wmap.get(strip_tags(o["id"]), [])]
        wit = [w for w in wit if w and w.get("fails")]
        # table obligations: the second back end (Kani/CBMC, complete over the finite state domain) yields a
        # counterexample, which is then evaluated on the real code
        kh = kani_harness_of(o["id"])
        krec = (r.get("kani") or {}).get(kh) if kh else None
        cex = None
        replayed = wit[0] if wit else None
        replay_cmd = "replay/target/release/ppg2_replay %s" % wit[0]["witness"] if wit else None
        if krec and krec.get("failed") and krec.get("counterexample_codes"):
            cex = {"back_end": "kani 0.68 / cbmc (harness %s)" % kh, "state_codes": krec["counterexample_codes"]}
            rr = krec.get("replay_on_real_code") or []
            if rr:
                replayed = {"witness": "state table", "fails": True, "detail": rr}
                replay_cmd = "cd /verif/kani && VERIF_REPO=%s cargo run --offline --release --bin replay_tables -- %s" % (
                    REPO, " ".join(str(c) for c in krec["counterexample_codes"]))
        have_input = bool(replayed)
        json.dump({"property": pid, "obligation": o["id"], "clause": o["text"], "kind": o["kind"],
                   "source_function": o["fn"], "source": "%s:%d-%d" % (f["src_file"], f["src_line_start"],
                                                                       f["src_line_end"]),
                   "verifier": "verus", "verifier_output": failed[o["id"]],
                   "counterexample": cex,
                   "failing_input_replayed_on_real_code": replayed,
                   "replay_cmd": replay_cmd,
                   "note": ("Verus gives no counterexample. " if cex is None else "Verus gives no counterexample; Kani does for this "
                            "loop-free obligation. ") + ("The failing input was executed against the real engine.rs and "
                            "contradicts the property." if have_input else "No failing input was found by the witness library.")},
                  open(rp, "w"), indent=1)
        print("VIOLATION property=%s replay=%s obligation=%s%s" % (pid, rp, o["id"],
              "" if have_input else " no-failing-input-found"))
        rc = 1
    cov["violated_obligations"] = [o["id"] for o in viol]
    if rc == 0 and (tool_errors or n_ob == 0):
        cov["explanation"] = "UNDECIDED: " + "; ".join(tool_errors or ["no obligations registered"])
        write_evidence(cov, 0, base_assumptions)
        print("UNDECIDED property=%s reason=%s" % (pid, cov["explanation"][:500]))
        sys.exit(2)
    write_evidence(cov, len(viol), base_assumptions)
    if rc == 0:
        print("OK property=%s obligations=%d discharged=%d known_findings=%d undecided_sites=%d verus_wall=%.1fs cache=%s"
              % (pid, n_ob, n_dis, len(kf_lines), len(cov["undecided_sites"]), r["verus_wall_s"], r.get("from_cache")))
    sys.exit(rc)


if __name__ == "__main__":
    main()
