#!/bin/bash
# usage: seed_ingest.sh <TAG> <PROPERTY> "<one-line description of the change>"
# confirms a sub-agent's change in its scratch worktree (/tmp/wt_<TAG>, files in /tmp/seed_<TAG>) and stores it under seeded/<TAG>
T=$1; P=$2; D=$3; export WAVE=${T##*w}; V=$(cd "$(dirname "$0")/.." && pwd)
OUT=$("$V/tools/seed_verify.sh" "$T" 2>&1); echo "$OUT"
echo "$OUT" | grep -q "with patch, original tests: test result: ok. 74 passed" || { echo "REJECT: tests"; exit 1; }
echo "$OUT" | grep -q "with patch, + demo: test result: FAILED" || { echo "REJECT: demo does not fail"; exit 1; }
echo "$OUT" | grep -q "without patch, + demo: test result: ok" || { echo "REJECT: demo fails without patch"; exit 1; }
mkdir -p "$V/seeded/$T"; cp /tmp/seed_$T/patch.diff /tmp/seed_$T/demo_test.rs "$V/seeded/$T/"; cp /tmp/seed_$T/notes.md "$V/seeded/$T/" 2>/dev/null
python3 - "$T" "$P" "$D" "$V" <<'PY'
import json,sys,subprocess
t,p,d,v=sys.argv[1:5]
head=subprocess.run(["git","-C","/repo","rev-parse","--short","HEAD"],capture_output=True,text=True).stdout.strip()
json.dump({"property_broken":p,"change":d,"needs_to_manifest":"see notes.md",
 "confirmed":"re-run by hand in the sub-agent's scratch worktree (tree %s): 74 original tests pass with the patch; demo test(s) fail with the patch and pass without it"%head,
 "checks_run":"tools/seed_par.py "+t,
 "origin":"sub-agent given only the property text and a scratch worktree, told not to read /repo or /verif (wave %s)" % __import__("os").environ.get("WAVE","11")},open(v+"/seeded/"+t+"/meta.json","w"),indent=1)
PY
git -C /repo worktree remove --force /tmp/wt_$T && rm -rf /tmp/seed_$T && echo "STORED $T"
