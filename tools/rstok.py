"""Minimal Rust tokenizer and item splitter used by the extractor.

Token-aware (strings, raw strings, chars/lifetimes, nested block comments), no
regex-on-lines.  Only what the extraction rules in DESIGN.md §3.1 need.
"""
import re


class ExtractError(Exception):
    """Raised for any construct the extractor does not understand (=> exit 2)."""


class Tok:
    __slots__ = ("kind", "text", "start", "end")

    def __init__(self, kind, text, start, end):
        self.kind, self.text, self.start, self.end = kind, text, start, end

    def __repr__(self):
        return "Tok(%s,%r,%d)" % (self.kind, self.text, self.start)


_ident = re.compile(r"[A-Za-z_][A-Za-z0-9_]*")
_number = re.compile(r"[0-9][0-9A-Za-z_]*(\.[0-9][0-9A-Za-z_]*)?")
_ws = re.compile(r"\s+")
_punct3 = ("<<=", ">>=", "...", "..=")
_punct2 = ("::", "->", "=>", "==", "!=", "<=", ">=", "&&", "||", "+=", "-=", "*=", "/=", "%=",
           "^=", "&=", "|=", "<<", ">>", "..")


def tokenize(src):
    toks = []
    i, n = 0, len(src)
    while i < n:
        c = src[i]
        m = _ws.match(src, i)
        if m:
            toks.append(Tok("ws", m.group(), i, m.end()))
            i = m.end()
            continue
        if src.startswith("//", i):
            j = src.find("\n", i)
            j = n if j < 0 else j
            toks.append(Tok("comment", src[i:j], i, j))
            i = j
            continue
        if src.startswith("/*", i):
            depth, j = 1, i + 2
            while depth and j < n:
                if src.startswith("/*", j):
                    depth += 1
                    j += 2
                elif src.startswith("*/", j):
                    depth -= 1
                    j += 2
                else:
                    j += 1
            if depth:
                raise ExtractError("unterminated block comment at %d" % i)
            toks.append(Tok("comment", src[i:j], i, j))
            i = j
            continue
        # raw strings r"..", r#".."#, br".."
        m = re.match(r"b?r(#*)\"", src[i:i + 12])
        if m:
            hashes = m.group(1)
            close = '"' + hashes
            j = src.find(close, i + len(m.group()))
            if j < 0:
                raise ExtractError("unterminated raw string at %d" % i)
            j += len(close)
            toks.append(Tok("string", src[i:j], i, j))
            i = j
            continue
        if c == '"' or (c == "b" and src.startswith('b"', i)):
            j = i + (2 if c == "b" else 1)
            while j < n and src[j] != '"':
                j += 2 if src[j] == "\\" else 1
            if j >= n:
                raise ExtractError("unterminated string at %d" % i)
            j += 1
            toks.append(Tok("string", src[i:j], i, j))
            i = j
            continue
        if c == "'":
            # char literal or lifetime
            m = re.match(r"'(\\.[^']*|[^\\'])'", src[i:i + 12])
            if m:
                toks.append(Tok("char", m.group(), i, i + len(m.group())))
                i += len(m.group())
                continue
            m = _ident.match(src, i + 1)
            if m:
                toks.append(Tok("lifetime", src[i:m.end()], i, m.end()))
                i = m.end()
                continue
            raise ExtractError("stray quote at %d" % i)
        m = _ident.match(src, i)
        if m:
            toks.append(Tok("ident", m.group(), i, m.end()))
            i = m.end()
            continue
        m = _number.match(src, i)
        if m:
            toks.append(Tok("number", m.group(), i, m.end()))
            i = m.end()
            continue
        for p in _punct3 + _punct2:
            if src.startswith(p, i):
                toks.append(Tok("punct", p, i, i + len(p)))
                i += len(p)
                break
        else:
            toks.append(Tok("punct", c, i, i + 1))
            i += 1
    return toks


OPEN = {"(": ")", "[": "]", "{": "}"}
CLOSE = {v: k for k, v in OPEN.items()}


def sig(toks):
    """indices of significant (non ws/comment) tokens"""
    return [k for k, t in enumerate(toks) if t.kind not in ("ws", "comment")]


def match_close(toks, k):
    """toks[k] is an opening bracket; return index of its matching close."""
    assert toks[k].text in OPEN, toks[k]
    stack = []
    for j in range(k, len(toks)):
        t = toks[j]
        if t.kind != "punct":
            continue
        if t.text in OPEN:
            stack.append(t.text)
        elif t.text in CLOSE:
            if not stack or stack[-1] != CLOSE[t.text]:
                raise ExtractError("bracket mismatch at %d (%r)" % (t.start, t.text))
            stack.pop()
            if not stack:
                return j
    raise ExtractError("unclosed bracket at %d" % toks[k].start)


def text(toks, a, b):
    """source text of toks[a:b]"""
    return "".join(t.text for t in toks[a:b])


def next_sig(toks, k):
    k += 1
    while k < len(toks) and toks[k].kind in ("ws", "comment"):
        k += 1
    return k


def prev_sig(toks, k):
    k -= 1
    while k >= 0 and toks[k].kind in ("ws", "comment"):
        k -= 1
    return k


class Item:
    """A top-level or impl-level item: [a,b) token range incl. attributes."""

    def __init__(self, kind, name, a, b, head_a, body_open, body_close):
        self.kind, self.name = kind, name
        self.a, self.b = a, b            # full range incl. leading attrs/doc comments
        self.head_a = head_a             # first token of the item proper (after attrs)
        self.body_open, self.body_close = body_open, body_close  # brace token idx or None
        self.attrs = []

    def __repr__(self):
        return "Item(%s %s)" % (self.kind, self.name)


_ITEM_KW = ("use", "enum", "struct", "trait", "impl", "type", "macro_rules", "fn", "mod", "static",
            "const")


def split_items(toks, a, b):
    """Split toks[a:b] (the inside of a file or of an impl/trait block) into items."""
    items = []
    k = a
    while True:
        # skip ws; comments directly preceding an item are attached to it
        while k < b and toks[k].kind == "ws":
            k += 1
        if k >= b:
            break
        start = k
        attrs = []
        # leading comments / attributes
        while k < b:
            t = toks[k]
            if t.kind in ("ws", "comment"):
                k += 1
            elif t.kind == "punct" and t.text == "#":
                j = next_sig(toks, k)
                if toks[j].text == "!":
                    j = next_sig(toks, j)
                if toks[j].text != "[":
                    raise ExtractError("bad attribute at %d" % t.start)
                e = match_close(toks, j)
                attrs.append(text(toks, k, e + 1))
                k = e + 1
            else:
                break
        if k >= b:
            break
        head_a = k
        # visibility
        j = k
        if toks[j].text == "pub":
            j = next_sig(toks, j)
            if toks[j].text == "(":
                j = next_sig(toks, match_close(toks, j))
        while toks[j].text in ("unsafe", "async", "extern", "default"):
            j = next_sig(toks, j)
        kw = toks[j].text
        if kw not in _ITEM_KW:
            raise ExtractError("unknown item start %r at %d" % (kw, toks[j].start))
        # name
        name = None
        if kw == "macro_rules":
            j2 = next_sig(toks, j)  # !
            j3 = next_sig(toks, j2)
            name = toks[j3].text
        elif kw in ("enum", "struct", "trait", "type", "fn", "mod", "static", "const"):
            name = toks[next_sig(toks, j)].text
        elif kw == "impl":
            # name = text up to '{' normalised
            pass
        # find end: first '{' or ';' at bracket depth 0 (parens/brackets/angle are skipped
        # by matching parens/brackets only; angle brackets contain no braces here)
        m = j
        body_open = body_close = None
        while m < b:
            t = toks[m]
            if t.kind == "punct" and t.text in ("(", "["):
                m = match_close(toks, m) + 1
                continue
            if t.kind == "punct" and t.text == "{":
                body_open = m
                body_close = match_close(toks, m)
                m = body_close + 1
                break
            if t.kind == "punct" and t.text == ";":
                m += 1
                break
            m += 1
        else:
            raise ExtractError("unterminated item %r" % kw)
        if body_open is not None and kw in ("use", "type", "static", "const"):
            # e.g. `use a::{b, c};` -> continue to ';'
            while m < b and toks[m].text != ";":
                m += 1
            m += 1
            body_open = body_close = None
        else:
            # absorb a directly following ';'
            n2 = m
            while n2 < b and toks[n2].kind == "ws":
                n2 += 1
            if n2 < b and toks[n2].text == ";" and kw in ("macro_rules",):
                m = n2 + 1
        if kw == "impl":
            name = " ".join(toks[x].text for x in sig(toks[j + 1:body_open]) and
                            [y for y in range(j + 1, body_open) if toks[y].kind not in ("ws", "comment")])
            name = re.sub(r"\s+", " ", name)
        it = Item(kw, name, start, m, head_a, body_open, body_close)
        it.attrs = attrs
        items.append(it)
        k = m
    return items
