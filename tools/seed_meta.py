#!/usr/bin/env python3
"""copy the verdicts of the last seed_par run (seeded/<n>/last_run.json) into seeded/<n>/meta.json"""
import json, os, sys
V = os.path.dirname(os.path.dirname(os.path.abspath(__file__)))
for n in sorted(os.listdir(os.path.join(V, "seeded"))):
    d = os.path.join(V, "seeded", n)
    lr, mp = os.path.join(d, "last_run.json"), os.path.join(d, "meta.json")
    if not (os.path.exists(lr) and os.path.exists(mp)):
        continue
    r, m = json.load(open(lr)), json.load(open(mp))
    m["caught_by"] = sorted(r["violations"])
    m["violated_obligations"] = sorted(set(x.split("obligation=")[-1].split(" ")[0] for v in r["violations"].values() for x in v))[:8]
    m["undecided_checks"] = len(r["undecided"])
    if r["undecided"]:
        m["undecided_reason"] = list(r["undecided"].values())[0][0][:300] if list(r["undecided"].values())[0] else ""
    else:
        m.pop("undecided_reason", None)
    m["own_property_alarmed"] = m.get("property_broken") in r["violations"]
    json.dump(m, open(mp, "w"), indent=1)
    print(n, m["property_broken"], m["caught_by"], "undecided=%d" % m["undecided_checks"])
