// ---------------------------------------------------------------------------------------------
// Spec vocabulary.  The state tables below are written from the property statements (what
// "finished", "failed", "offered", "running", "executed successfully" mean), NOT copied from the
// code; unit U0 proves the code's classification functions equal to them.
// ---------------------------------------------------------------------------------------------

spec fn always_finished(s: JobStateAlways) -> bool {
    s == JobStateAlways::FinishedSuccess || s == JobStateAlways::FinishedFailure
        || s == JobStateAlways::FinishedUpstreamFailure || s == JobStateAlways::FinishedAborted
}
spec fn always_failed(s: JobStateAlways) -> bool {
    s == JobStateAlways::FinishedFailure || s == JobStateAlways::FinishedUpstreamFailure
        || s == JobStateAlways::FinishedAborted
}
spec fn output_finished(s: JobStateOutput) -> bool {
    s == JobStateOutput::FinishedSuccess || s == JobStateOutput::FinishedFailure
        || s == JobStateOutput::FinishedUpstreamFailure || s == JobStateOutput::FinishedSkipped
        || s == JobStateOutput::FinishedAborted
}
spec fn output_failed(s: JobStateOutput) -> bool {
    s == JobStateOutput::FinishedFailure || s == JobStateOutput::FinishedUpstreamFailure
        || s == JobStateOutput::FinishedAborted
}
spec fn eph_finished(s: JobStateEphemeral) -> bool {
    s == JobStateEphemeral::FinishedSuccessNotReadyForCleanup
        || s == JobStateEphemeral::FinishedSuccessReadyForCleanup
        || s == JobStateEphemeral::FinishedSuccessCleanedUp
        || s == JobStateEphemeral::FinishedSuccessSkipCleanup
        || s == JobStateEphemeral::FinishedFailure || s == JobStateEphemeral::FinishedUpstreamFailure
        || s == JobStateEphemeral::FinishedSkipped || s == JobStateEphemeral::FinishedAborted
}
spec fn eph_failed(s: JobStateEphemeral) -> bool {
    s == JobStateEphemeral::FinishedFailure || s == JobStateEphemeral::FinishedUpstreamFailure
        || s == JobStateEphemeral::FinishedAborted
}
spec fn finished(s: JobState) -> bool {
    match s {
        JobState::Always(x) => always_finished(x),
        JobState::Output(x) => output_finished(x),
        JobState::Ephemeral(x) => eph_finished(x),
    }
}
spec fn failed(s: JobState) -> bool {
    match s {
        JobState::Always(x) => always_failed(x),
        JobState::Output(x) => output_failed(x),
        JobState::Ephemeral(x) => eph_failed(x),
    }
}
spec fn upfailed(s: JobState) -> bool {
    s == JobState::Always(JobStateAlways::FinishedUpstreamFailure)
        || s == JobState::Output(JobStateOutput::FinishedUpstreamFailure)
        || s == JobState::Ephemeral(JobStateEphemeral::FinishedUpstreamFailure)
}

spec fn edges_in_range(dag: &GraphType, len: nat) -> bool {
    forall|a: usize, b: usize| #![trigger dag.has_edge(a, b)] dag.has_edge(a, b) ==> a < len && b < len && a != b
}

spec fn all_up_done(dag: &GraphType, jobs: Seq<NodeInfo>, n: usize) -> bool {
    forall|u: usize| #![trigger dag.is_nbr(n, Direction::Incoming, u)]
        dag.is_nbr(n, Direction::Incoming, u) ==> finished(jobs[u as int].state)
}

proof fn lemma_nbr_seq_nonempty(dag: &GraphType, n: usize, d: Direction, s: Seq<usize>)
    requires nbr_seq(dag, n, d, s),
    ensures (s.len() > 0) == (exists|u: usize| dag.is_nbr(n, d, u)),
{
    if s.len() > 0 {
        assert(s.contains(s[0]));
        assert(dag.is_nbr(n, d, s[0]));
    } else {
        assert forall|u: usize| !dag.is_nbr(n, d, u) by {
            if dag.is_nbr(n, d, u) { assert(s.contains(u)); }
        }
    }
}
