// ---------------------------------------------------------------------------------------------
// Spec vocabulary.  The state tables below are written from the property statements (what
// "finished", "failed", "offered", "running", "executed successfully" mean), NOT copied from the
// code; unit U0 proves the code's classification functions equal to them.
// ---------------------------------------------------------------------------------------------

// KANI-TABLES-BEGIN (plain Rust apart from the `spec` keyword: also compiled into the Kani cross-check)
spec fn always_finished(s: JobStateAlways) -> bool {
    s == JobStateAlways::FinishedSuccess || s == JobStateAlways::FinishedFailure
        || s == JobStateAlways::FinishedUpstreamFailure || s == JobStateAlways::FinishedAborted
}
spec fn always_failed(s: JobStateAlways) -> bool {
    s == JobStateAlways::FinishedFailure || s == JobStateAlways::FinishedUpstreamFailure
        || s == JobStateAlways::FinishedAborted
}
spec fn output_finished(s: JobStateOutput) -> bool {
    s == JobStateOutput::FinishedSuccess || s == JobStateOutput::FinishedFailure
        || s == JobStateOutput::FinishedUpstreamFailure || s == JobStateOutput::FinishedSkipped
        || s == JobStateOutput::FinishedAborted
}
spec fn output_failed(s: JobStateOutput) -> bool {
    s == JobStateOutput::FinishedFailure || s == JobStateOutput::FinishedUpstreamFailure
        || s == JobStateOutput::FinishedAborted
}
spec fn eph_finished(s: JobStateEphemeral) -> bool {
    s == JobStateEphemeral::FinishedSuccessNotReadyForCleanup
        || s == JobStateEphemeral::FinishedSuccessReadyForCleanup
        || s == JobStateEphemeral::FinishedSuccessCleanedUp
        || s == JobStateEphemeral::FinishedSuccessSkipCleanup
        || s == JobStateEphemeral::FinishedFailure || s == JobStateEphemeral::FinishedUpstreamFailure
        || s == JobStateEphemeral::FinishedSkipped || s == JobStateEphemeral::FinishedAborted
}
spec fn eph_failed(s: JobStateEphemeral) -> bool {
    s == JobStateEphemeral::FinishedFailure || s == JobStateEphemeral::FinishedUpstreamFailure
        || s == JobStateEphemeral::FinishedAborted
}
spec fn finished(s: JobState) -> bool {
    match s {
        JobState::Always(x) => always_finished(x),
        JobState::Output(x) => output_finished(x),
        JobState::Ephemeral(x) => eph_finished(x),
    }
}
spec fn failed(s: JobState) -> bool {
    match s {
        JobState::Always(x) => always_failed(x),
        JobState::Output(x) => output_failed(x),
        JobState::Ephemeral(x) => eph_failed(x),
    }
}
spec fn upfailed(s: JobState) -> bool {
    s == JobState::Always(JobStateAlways::FinishedUpstreamFailure)
        || s == JobState::Output(JobStateOutput::FinishedUpstreamFailure)
        || s == JobState::Ephemeral(JobStateEphemeral::FinishedUpstreamFailure)
}

// KANI-TABLES-END

spec fn edges_in_range(dag: &GraphType, len: nat) -> bool {
    &&& forall|a: usize, b: usize| #![trigger dag.has_edge(a, b)] dag.has_edge(a, b) ==> a < len && b < len && a != b
    &&& forall|x: usize| #![trigger dag.nodes_set().contains(x)] dag.nodes_set().contains(x) ==> x < len
}

spec fn all_up_done(dag: &GraphType, jobs: Seq<NodeInfo>, n: usize) -> bool {
    forall|u: usize| #![trigger dag.is_nbr(n, Direction::Incoming, u)]
        dag.is_nbr(n, Direction::Incoming, u) ==> finished(jobs[u as int].state)
}

proof fn lemma_nbr_seq_nonempty(dag: &GraphType, n: usize, d: Direction, s: Seq<usize>)
    requires nbr_seq(dag, n, d, s),
    ensures (s.len() > 0) == (exists|u: usize| dag.is_nbr(n, d, u)),
{
    if s.len() > 0 {
        assert(s.contains(s[0]));
        assert(dag.is_nbr(n, d, s[0]));
    } else {
        assert forall|u: usize| !dag.is_nbr(n, d, u) by {
            if dag.is_nbr(n, d, u) { assert(s.contains(u)); }
        }
    }
}

// ---- phases of the per-job lifecycle (from C17 / C05 / C02: "offered", "running", "executed successfully")
spec fn pre_offer(s: JobState) -> bool {
    match s {
        JobState::Always(x) => x == JobStateAlways::Undetermined,
        JobState::Output(x) => x is NotReady,
        JobState::Ephemeral(x) => x is NotReady || x == JobStateEphemeral::ReadyButDelayed,
    }
}
/// not yet judged: the state every job is created in
spec fn pre_unknown(s: JobState) -> bool {
    s == JobState::Always(JobStateAlways::Undetermined)
        || s == JobState::Output(JobStateOutput::NotReady(ValidationStatus::Unknown))
        || s == JobState::Ephemeral(JobStateEphemeral::NotReady(ValidationStatus::Unknown))
}
/// order inside the pre-offer phase: a verdict, once reached, is never revised or forgotten
/// (not judged -> judged up to date / not up to date; an up-to-date Ephemeral -> parked until its consumers decide)
#[verifier::opaque]
spec fn pre_le(s: JobState, t: JobState) -> bool {
    s == t || pre_unknown(s)
        || (s == JobState::Ephemeral(JobStateEphemeral::NotReady(ValidationStatus::Validated))
            && t == JobState::Ephemeral(JobStateEphemeral::ReadyButDelayed))
}
spec fn is_ready(s: JobState) -> bool {
    match s {
        JobState::Always(x) => x == JobStateAlways::ReadyToRun,
        JobState::Output(x) => x == JobStateOutput::ReadyToRun,
        JobState::Ephemeral(x) => x is ReadyToRun,
    }
}
spec fn is_running(s: JobState) -> bool {
    match s {
        JobState::Always(x) => x == JobStateAlways::Running,
        JobState::Output(x) => x == JobStateOutput::Running,
        JobState::Ephemeral(x) => x is Running,
    }
}
spec fn eph_success(x: JobStateEphemeral) -> bool {
    x == JobStateEphemeral::FinishedSuccessNotReadyForCleanup
        || x == JobStateEphemeral::FinishedSuccessReadyForCleanup
        || x == JobStateEphemeral::FinishedSuccessCleanedUp
        || x == JobStateEphemeral::FinishedSuccessSkipCleanup
}
/// executed successfully
spec fn ran_ok(s: JobState) -> bool {
    match s {
        JobState::Always(x) => x == JobStateAlways::FinishedSuccess,
        JobState::Output(x) => x == JobStateOutput::FinishedSuccess,
        JobState::Ephemeral(x) => eph_success(x),
    }
}
spec fn is_exec_failure(s: JobState) -> bool {
    s == JobState::Always(JobStateAlways::FinishedFailure)
        || s == JobState::Output(JobStateOutput::FinishedFailure)
        || s == JobState::Ephemeral(JobStateEphemeral::FinishedFailure)
}
/// what justifies "upstream failed" in a consumer (C07): the job failed when executed, or is itself upstream-failed
spec fn fail_cause(s: JobState) -> bool {
    is_exec_failure(s) || upfailed(s)
}
spec fn is_aborted(s: JobState) -> bool {
    s == JobState::Always(JobStateAlways::FinishedAborted)
        || s == JobState::Output(JobStateOutput::FinishedAborted)
        || s == JobState::Ephemeral(JobStateEphemeral::FinishedAborted)
}
spec fn is_skipped(s: JobState) -> bool {
    s == JobState::Output(JobStateOutput::FinishedSkipped)
        || s == JobState::Ephemeral(JobStateEphemeral::FinishedSkipped)
}
spec fn same_kind(s: JobState, t: JobState) -> bool {
    (s is Always && t is Always) || (s is Output && t is Output) || (s is Ephemeral && t is Ephemeral)
}
spec fn running_of(s: JobState) -> JobState {
    match s {
        JobState::Always(_) => JobState::Always(JobStateAlways::Running),
        JobState::Output(_) => JobState::Output(JobStateOutput::Running),
        JobState::Ephemeral(JobStateEphemeral::ReadyToRun(v)) => JobState::Ephemeral(JobStateEphemeral::Running(v)),
        JobState::Ephemeral(_) => s,
    }
}

/// Lifecycle order (C17): `lc_le(s, t)` = a job may be in state s now and in state t later.
/// Written from the statement: kind never changes; offered at most once (nothing leads back to an
/// offered state); finished never becomes unfinished; executed-successfully never becomes
/// failed / upstream-failed.  It is the reflexive-transitive closure of
/// pre-offer -> {pre-offer, offered, skipped, upstream-failed, aborted}; offered -> {running, aborted};
/// running -> {success, failure, aborted}; skipped -> upstream-failed (a job skipped early whose input fails after all);
/// Ephemeral success: NotReadyForCleanup -> {ReadyForCleanup, SkipCleanup}; ReadyForCleanup -> CleanedUp.
spec fn lc_le(s: JobState, t: JobState) -> bool {
    same_kind(s, t) && (s == t
        || (pre_offer(s) && (!pre_offer(t) || pre_le(s, t)))
        || (is_ready(s) && (is_running(t) || ran_ok(t) || is_exec_failure(t) || is_aborted(t)))
        || (is_running(s) && (ran_ok(t) || is_exec_failure(t) || is_aborted(t)))
        || (s == JobState::Output(JobStateOutput::FinishedSkipped)
            && t == JobState::Output(JobStateOutput::FinishedUpstreamFailure))
        || (s == JobState::Ephemeral(JobStateEphemeral::FinishedSkipped)
            && t == JobState::Ephemeral(JobStateEphemeral::FinishedUpstreamFailure))
        || (s == JobState::Ephemeral(JobStateEphemeral::FinishedSuccessNotReadyForCleanup)
            && (t == JobState::Ephemeral(JobStateEphemeral::FinishedSuccessReadyForCleanup)
                || t == JobState::Ephemeral(JobStateEphemeral::FinishedSuccessSkipCleanup)
                || t == JobState::Ephemeral(JobStateEphemeral::FinishedSuccessCleanedUp)))
        || (s == JobState::Ephemeral(JobStateEphemeral::FinishedSuccessReadyForCleanup)
            && t == JobState::Ephemeral(JobStateEphemeral::FinishedSuccessCleanedUp)))
}

/// the single transitions the statement allows (one state write)
spec fn lc_step(s: JobState, t: JobState) -> bool {
    same_kind(s, t) && (
        (pre_offer(s) && ((pre_offer(t) && pre_le(s, t)) || is_ready(t) || is_skipped(t) || upfailed(t) || is_aborted(t)))
        || (is_ready(s) && (t == running_of(s) || is_aborted(t)))
        || (is_running(s) && (is_exec_failure(t) || is_aborted(t)
            || t == JobState::Always(JobStateAlways::FinishedSuccess)
            || t == JobState::Output(JobStateOutput::FinishedSuccess)
            || t == JobState::Ephemeral(JobStateEphemeral::FinishedSuccessNotReadyForCleanup)))
        || (s == JobState::Output(JobStateOutput::FinishedSkipped)
            && t == JobState::Output(JobStateOutput::FinishedUpstreamFailure))
        || (s == JobState::Ephemeral(JobStateEphemeral::FinishedSkipped)
            && t == JobState::Ephemeral(JobStateEphemeral::FinishedUpstreamFailure))
        || (s == JobState::Ephemeral(JobStateEphemeral::FinishedSuccessNotReadyForCleanup)
            && (t == JobState::Ephemeral(JobStateEphemeral::FinishedSuccessReadyForCleanup)
                || t == JobState::Ephemeral(JobStateEphemeral::FinishedSuccessSkipCleanup)))
        || (s == JobState::Ephemeral(JobStateEphemeral::FinishedSuccessReadyForCleanup)
            && t == JobState::Ephemeral(JobStateEphemeral::FinishedSuccessCleanedUp)))
}

proof fn lemma_lc_order(s: JobState, t: JobState, u: JobState)
    ensures
        lc_le(s, s),
        lc_step(s, t) ==> lc_le(s, t),
        lc_le(s, t) && lc_le(t, u) ==> lc_le(s, u),
        lc_le(s, t) && lc_le(t, s) ==> s == t,
{
    reveal(pre_le);
}

/// consequences of the order that the property statements need
proof fn lemma_lc_consequences(s: JobState, t: JobState)
    requires lc_le(s, t),
    ensures
        same_kind(s, t),
        finished(s) ==> finished(t),
        ran_ok(s) ==> ran_ok(t),
        ran_ok(s) ==> !failed(t),
        is_ready(t) && s != t ==> pre_offer(s),
        upfailed(t) ==> !is_ready(s) && !is_running(s) && !ran_ok(s),
        is_running(t) ==> pre_offer(s) || is_ready(s) || s == t,
        !pre_offer(s) ==> !pre_offer(t),
        pre_offer(s) && pre_offer(t) ==> pre_le(s, t),
        pre_unknown(t) ==> s == t,
        t == JobState::Ephemeral(JobStateEphemeral::NotReady(ValidationStatus::Invalidated)) ==> s == t || pre_unknown(s),
        fail_cause(s) ==> t == s,
        is_skipped(t) ==> is_skipped(s) || pre_offer(s),
{
    reveal(pre_le);
}

// ---- the evaluator's abstract view and representation invariant
spec fn ids_wf(jobs: Seq<NodeInfo>, m: Map<String, usize>) -> bool {
    &&& forall|i: int| 0 <= i < jobs.len() ==> #[trigger] m.contains_key(jobs[i].job_id)
            && m[jobs[i].job_id] == i && valid_id(jobs[i].job_id@)
    &&& forall|k: String| #[trigger] m.contains_key(k) ==> m[k] < jobs.len() && jobs[m[k] as int].job_id == k
}

spec fn ready_set_wf(jobs: Seq<NodeInfo>, ready: Set<String>, m: Map<String, usize>) -> bool {
    &&& forall|i: int| 0 <= i < jobs.len() ==> (is_ready(#[trigger] jobs[i].state) <==> ready.contains(jobs[i].job_id))
    &&& forall|k: String| #[trigger] ready.contains(k) ==> m.contains_key(k)
}

spec fn cleanup_set_wf(jobs: Seq<NodeInfo>, cleanup: Set<String>, m: Map<String, usize>) -> bool {
    &&& forall|i: int| 0 <= i < jobs.len() ==> (
            (#[trigger] jobs[i].state == JobState::Ephemeral(JobStateEphemeral::FinishedSuccessReadyForCleanup))
            <==> cleanup.contains(jobs[i].job_id))
    &&& forall|k: String| #[trigger] cleanup.contains(k) ==> m.contains_key(k)
}

/// W5: history_output against state
spec fn out_wf_one(j: NodeInfo) -> bool {
    &&& (ran_ok(j.state) || j.state == JobState::Output(JobStateOutput::FinishedSkipped) ==> j.history_output is Some)
    &&& (!finished(j.state) || is_exec_failure(j.state) || is_aborted(j.state)
            || j.state == JobState::Always(JobStateAlways::FinishedUpstreamFailure)
        ==> j.history_output is None)
}
spec fn out_wf(jobs: Seq<NodeInfo>) -> bool {
    forall|i: int| 0 <= i < jobs.len() ==> out_wf_one(#[trigger] jobs[i])
}

/// W5 for every job except x (the job whose "finished successfully" report is being delivered:
/// it is still Running but already carries its output)
spec fn out_wf_x(jobs: Seq<NodeInfo>, x: int) -> bool {
    forall|i: int| 0 <= i < jobs.len() && i != x ==> out_wf_one(#[trigger] jobs[i])
}

/// an Ephemeral job judged up to date (and parked until its consumers decide) has a record of its own:
/// only then can a consumer be judged against it (C06: "Should have had history for it, if it was validated")
spec fn val_rec(jobs: Seq<NodeInfo>, h: Map<String, String>) -> bool {
    forall|i: int| #![trigger is_parked_eph(jobs[i].state)] 0 <= i < jobs.len() && is_parked_eph(jobs[i].state) ==> h.contains_key(jobs[i].job_id)
}

/// no job entered the "judged up to date, parked" states
spec fn no_new_parked(a: Seq<NodeInfo>, b: Seq<NodeInfo>) -> bool {
    a.len() == b.len() && forall|i: int| #![trigger is_parked_eph(b[i].state)] 0 <= i < b.len() && is_parked_eph(b[i].state) ==> is_parked_eph(a[i].state)
}

/// two-state relation of every mutating operation on the job table
spec fn jobs_step(a: Seq<NodeInfo>, b: Seq<NodeInfo>) -> bool {
    &&& a.len() == b.len()
    &&& forall|i: int| 0 <= i < a.len() ==> (#[trigger] b[i]).job_id == a[i].job_id
    &&& forall|i: int| 0 <= i < a.len() ==> lc_le(a[i].state, (#[trigger] b[i]).state)
    &&& forall|i: int| 0 <= i < a.len() ==> (a[i].history_output is Some ==> (#[trigger] b[i]).history_output == a[i].history_output)
}

proof fn lemma_jobs_step_refl(a: Seq<NodeInfo>)
    ensures jobs_step(a, a),
{
    assert forall|i: int| 0 <= i < a.len() implies lc_le(a[i].state, a[i].state) by { lemma_lc_order(a[i].state, a[i].state, a[i].state); }
}

proof fn lemma_jobs_step_trans(a: Seq<NodeInfo>, b: Seq<NodeInfo>, c: Seq<NodeInfo>)
    requires jobs_step(a, b), jobs_step(b, c),
    ensures jobs_step(a, c),
{
    assert forall|i: int| 0 <= i < a.len() implies lc_le(a[i].state, (#[trigger] c[i]).state) by {
        assert(lc_le(a[i].state, b[i].state));
        lemma_lc_order(a[i].state, b[i].state, c[i].state);
    }
    assert forall|i: int| 0 <= i < a.len() implies (#[trigger] c[i]).job_id == a[i].job_id by {
        assert(b[i].job_id == a[i].job_id);
    }
    assert forall|i: int| 0 <= i < a.len() implies (a[i].history_output is Some ==> (#[trigger] c[i]).history_output == a[i].history_output) by {
        assert(a[i].history_output is Some ==> b[i].history_output == a[i].history_output);
    }
}

impl<T: PPGEvaluatorStrategy> PPGEvaluator<T> {
    spec fn started(&self) -> bool { !(self.already_started is NotStarted) }

    /// representation invariant without the "queue is empty" clause (holds between signals)
    spec fn wf_core(&self) -> bool {
        core_ok(self.jobs@, self.job_id_to_node_idx@, &self.dag, self.jobs_ready_to_run@, self.jobs_ready_for_cleanup@, self.already_started is Finished)
    }

    /// representation invariant between public calls
    spec fn wf(&self) -> bool {
        &&& self.wf_core()
        &&& self.signals@.len() == 0
        &&& val_rec(self.jobs@, self.history@)
        &&& iso_ok(&self.dag, self.jobs@)
    }

    /// every observable aspect equal (C20).  Vec/HashMap are compared by view: Verus has no
    /// extensional equality on the containers themselves.
    spec fn obs_eq(&self, o: &Self) -> bool {
        &&& self.jobs@ =~= o.jobs@
        &&& self.dag == o.dag
        &&& self.job_id_to_node_idx@ =~= o.job_id_to_node_idx@
        &&& self.history@ =~= o.history@
        &&& self.already_started == o.already_started
        &&& self.jobs_ready_to_run@ =~= o.jobs_ready_to_run@
        &&& self.jobs_ready_for_cleanup@ =~= o.jobs_ready_for_cleanup@
        &&& self.topo == o.topo
        &&& self.signals@ =~= o.signals@
        &&& self.gen == o.gen
    }

    spec fn idx_of(&self, id: Seq<char>) -> int {
        idx_of_seq(self.jobs@, id)
    }

    spec fn knows(&self, id: Seq<char>) -> bool {
        exists|i: int| 0 <= i < self.jobs@.len() && #[trigger] self.jobs@[i].job_id@ == id
    }
}

spec fn idx_of_seq(jobs: Seq<NodeInfo>, id: Seq<char>) -> int {
    choose|i: int| 0 <= i < jobs.len() && jobs[i].job_id@ == id
}

/// looking a known id up in job_id_to_node_idx yields its index
proof fn lemma_lookup(jobs: Seq<NodeInfo>, m: Map<String, usize>, id: Seq<char>)
    requires
        ids_wf(jobs, m),
        exists|i: int| 0 <= i < jobs.len() && #[trigger] jobs[i].job_id@ == id,
    ensures
        0 <= idx_of_seq(jobs, id) < jobs.len(),
        jobs[idx_of_seq(jobs, id)].job_id@ == id,
        forall|s: String| #![trigger m.contains_key(s)] s@ == id ==> m.contains_key(s) && m[s] == idx_of_seq(jobs, id),
        forall|i: int| 0 <= i < jobs.len() && #[trigger] jobs[i].job_id@ == id ==> i == idx_of_seq(jobs, id),
{
    broadcast use group_verif_axioms;
    let g = idx_of_seq(jobs, id);
    assert(m.contains_key(jobs[g].job_id));
    assert forall|s: String| s@ == id implies #[trigger] m.contains_key(s) && m[s] == g by {
        assert(s == jobs[g].job_id);
    }
    assert forall|i: int| 0 <= i < jobs.len() && #[trigger] jobs[i].job_id@ == id implies i == g by {
        assert(jobs[i].job_id == jobs[g].job_id);
        assert(m.contains_key(jobs[i].job_id));
    }
}

/// `post` is `pre` with only entry n changed (id kept); other entries keep id, state and output
/// (their `last_considered_in_gen` bookkeeping may differ)
spec fn one_changed(pre: Seq<NodeInfo>, post: Seq<NodeInfo>, n: int) -> bool {
    &&& 0 <= n < pre.len()
    &&& post.len() == pre.len()
    &&& forall|k: int| 0 <= k < pre.len() && k != n ==> (#[trigger] post[k]).job_id == pre[k].job_id
            && post[k].state == pre[k].state && post[k].history_output == pre[k].history_output
            && ab_flag(post[k]) == ab_flag(pre[k])
    &&& post[n].job_id == pre[n].job_id
}

proof fn lemma_ids_after_write(pre: Seq<NodeInfo>, post: Seq<NodeInfo>, m: Map<String, usize>, n: int)
    requires ids_wf(pre, m), one_changed(pre, post, n),
    ensures ids_wf(post, m),
{
    assert forall|i: int| 0 <= i < post.len() implies #[trigger] m.contains_key(post[i].job_id)
            && m[post[i].job_id] == i && valid_id(post[i].job_id@) by {
        assert(post[i].job_id == pre[i].job_id);
        assert(m.contains_key(pre[i].job_id));
    }
    assert forall|k: String| #[trigger] m.contains_key(k) implies m[k] < post.len() && post[m[k] as int].job_id == k by {
        let i = m[k] as int;
        assert(0 <= i < pre.len() && pre[i].job_id == k);
        assert(post[i].job_id == pre[i].job_id);
    }
}

/// ids are unique
proof fn lemma_ids_unique(jobs: Seq<NodeInfo>, m: Map<String, usize>, i: int, k: int)
    requires ids_wf(jobs, m), 0 <= i < jobs.len(), 0 <= k < jobs.len(), jobs[i].job_id == jobs[k].job_id,
    ensures i == k,
{
    assert(m.contains_key(jobs[i].job_id));
    assert(m.contains_key(jobs[k].job_id));
}

proof fn lemma_ready_set_after_write(pre: Seq<NodeInfo>, post: Seq<NodeInfo>, m: Map<String, usize>,
    ready: Set<String>, ready2: Set<String>, n: int)
    requires
        ids_wf(pre, m), ready_set_wf(pre, ready, m), one_changed(pre, post, n),
        is_ready(pre[n].state) == is_ready(post[n].state) ==> ready2 =~= ready,
        is_ready(pre[n].state) && !is_ready(post[n].state) ==> ready2 =~= ready.remove(pre[n].job_id),
        !is_ready(pre[n].state) && is_ready(post[n].state) ==> ready2 =~= ready.insert(pre[n].job_id),
    ensures ready_set_wf(post, ready2, m),
{
    assert forall|i: int| 0 <= i < post.len() implies (is_ready(#[trigger] post[i].state) <==> ready2.contains(post[i].job_id)) by {
        if i != n {
            assert(post[i].state == pre[i].state && post[i].job_id == pre[i].job_id);
            assert(is_ready(pre[i].state) <==> ready.contains(pre[i].job_id));
            if pre[i].job_id == pre[n].job_id { lemma_ids_unique(pre, m, i, n); }
        } else {
            assert(is_ready(pre[n].state) <==> ready.contains(pre[n].job_id));
        }
    }
    assert forall|k: String| #[trigger] ready2.contains(k) implies m.contains_key(k) by {
        if k == pre[n].job_id { assert(m.contains_key(pre[n].job_id)); } else { assert(ready.contains(k)); }
    }
}

spec fn is_rfc(s: JobState) -> bool {
    s == JobState::Ephemeral(JobStateEphemeral::FinishedSuccessReadyForCleanup)
}

proof fn lemma_cleanup_set_after_write(pre: Seq<NodeInfo>, post: Seq<NodeInfo>, m: Map<String, usize>,
    cl: Set<String>, cl2: Set<String>, n: int)
    requires
        ids_wf(pre, m), cleanup_set_wf(pre, cl, m), one_changed(pre, post, n),
        is_rfc(pre[n].state) == is_rfc(post[n].state) ==> cl2 =~= cl,
        is_rfc(pre[n].state) && !is_rfc(post[n].state) ==> cl2 =~= cl.remove(pre[n].job_id),
        !is_rfc(pre[n].state) && is_rfc(post[n].state) ==> cl2 =~= cl.insert(pre[n].job_id),
    ensures cleanup_set_wf(post, cl2, m),
{
    assert forall|i: int| 0 <= i < post.len() implies (is_rfc(#[trigger] post[i].state) <==> cl2.contains(post[i].job_id)) by {
        if i != n {
            assert(post[i].state == pre[i].state && post[i].job_id == pre[i].job_id);
            assert(is_rfc(pre[i].state) <==> cl.contains(pre[i].job_id));
            if pre[i].job_id == pre[n].job_id { lemma_ids_unique(pre, m, i, n); }
        } else {
            assert(is_rfc(pre[n].state) <==> cl.contains(pre[n].job_id));
        }
    }
    assert forall|k: String| #[trigger] cl2.contains(k) implies m.contains_key(k) by {
        if k == pre[n].job_id { assert(m.contains_key(pre[n].job_id)); } else { assert(cl.contains(k)); }
    }
}

proof fn lemma_out_after_write(pre: Seq<NodeInfo>, post: Seq<NodeInfo>, n: int)
    requires out_wf_x(pre, n), one_changed(pre, post, n), out_wf_one(post[n]),
    ensures out_wf(post),
{
    assert forall|i: int| 0 <= i < post.len() implies out_wf_one(#[trigger] post[i]) by {
        if i != n { assert(post[i].state == pre[i].state && post[i].history_output == pre[i].history_output); assert(out_wf_one(pre[i])); }
    }
}

proof fn lemma_step_after_write(pre: Seq<NodeInfo>, post: Seq<NodeInfo>, n: int)
    requires one_changed(pre, post, n), lc_le(pre[n].state, post[n].state),
        pre[n].history_output is Some ==> post[n].history_output == pre[n].history_output,
    ensures jobs_step(pre, post),
{
    assert forall|i: int| 0 <= i < pre.len() implies lc_le(pre[i].state, (#[trigger] post[i]).state) by {
        if i != n { assert(post[i].state == pre[i].state); lemma_lc_order(pre[i].state, pre[i].state, pre[i].state); }
    }
    assert forall|i: int| 0 <= i < pre.len() implies (#[trigger] post[i]).job_id == pre[i].job_id by {}
    assert forall|i: int| 0 <= i < pre.len() implies (pre[i].history_output is Some ==> (#[trigger] post[i]).history_output == pre[i].history_output) by {
        if i != n { assert(post[i].history_output == pre[i].history_output); }
    }
}

proof fn lemma_all_finished_after_write(pre: Seq<NodeInfo>, post: Seq<NodeInfo>, n: int)
    requires one_changed(pre, post, n), finished(pre[n].state) ==> finished(post[n].state),
        forall|i: int| 0 <= i < pre.len() ==> finished(#[trigger] pre[i].state),
    ensures forall|i: int| 0 <= i < post.len() ==> finished(#[trigger] post[i].state),
{
    assert forall|i: int| 0 <= i < post.len() implies finished(#[trigger] post[i].state) by {
        if i != n { assert(post[i].state == pre[i].state); assert(finished(pre[i].state)); }
    }
}

// ---- history vocabulary (C08 / C09 / C11 / C18), written from the property statements
spec fn id_known(m: Map<String, usize>, a: Seq<char>) -> bool {
    exists|s: String| #![trigger m.contains_key(s)] s@ == a && m.contains_key(s)
}

spec fn id_idx(m: Map<String, usize>, a: Seq<char>) -> usize {
    let s = choose|s: String| #![trigger m.contains_key(s)] s@ == a && m.contains_key(s);
    m[s]
}

/// C18: a job id is superseded when one of its outputs is now produced by a present job of a
/// different name
spec fn superseded(jobs: Seq<NodeInfo>, id: Seq<char>) -> bool {
    exists|i: int, p: Seq<char>| 0 <= i < jobs.len() && #[trigger] parts(jobs[i].job_id@).contains(p)
        && parts(id).contains(p) && jobs[i].job_id@ != id
}

/// no two present jobs produce the same output (enforced by the Python layer; a precondition of
/// new_history's C18 clauses)
spec fn parts_disjoint(jobs: Seq<NodeInfo>) -> bool {
    forall|i: int, k: int, p: Seq<char>| 0 <= i < jobs.len() && 0 <= k < jobs.len() && i != k
        && #[trigger] parts(jobs[i].job_id@).contains(p) ==> !#[trigger] parts(jobs[k].job_id@).contains(p)
}

/// C18: which records of the input history survive (before the records of present jobs are rewritten)
spec fn keep_key(jobs: Seq<NodeInfo>, m: Map<String, usize>, dag: &GraphType, k: Seq<char>) -> bool {
    if str_contains_sep(k) {
        let ab = str_split_once(k, "!!!"@).unwrap();
        if ab.1.len() != 0 {
            if id_known(m, ab.0) && id_known(m, ab.1) {
                dag.has_edge(id_idx(m, ab.0), id_idx(m, ab.1))
            } else {
                !superseded(jobs, ab.0)
            }
        } else {
            !superseded(jobs, ab.0)
        }
    } else {
        !superseded(jobs, k)
    }
}

/// the interface predicate between the abort/upstream-failure handlers and new_history:
/// final states whose own records new_history leaves untouched (C09)
spec fn keeps_records(s: JobState) -> bool {
    upfailed(s)
}

/// ... or because the run was aborted before the job had been started (finding F7, repaired: the engine marks such jobs)
spec fn keeps_j(j: NodeInfo) -> bool {
    upfailed(j.state) || ab_flag(j)
}

/// C08: "was still running when the run was aborted"
spec fn aborted_while_running(j: NodeInfo) -> bool {
    is_aborted(j.state) && !ab_flag(j)
}

spec fn same_at(a: Map<String, String>, b: Map<String, String>, k: String) -> bool {
    a.contains_key(k) == b.contains_key(k) && (a.contains_key(k) ==> a[k] == b[k])
}

spec fn second_success(jb: NodeInfo) -> bool {
    jb.history_output is Some || jb.state == JobState::Ephemeral(JobStateEphemeral::FinishedSkipped)
}

impl<T: PPGEvaluatorStrategy> PPGEvaluator<T> {
    /// C11: a job with a current output has exactly that output and the current input list recorded
    spec fn rec_c11(&self, out: Map<String, String>, i: int) -> bool {
        let j = self.jobs@[i];
        let ik = str_of(key_inputs(j.job_id@));
        j.history_output is Some ==> out.contains_key(j.job_id) && out[j.job_id] == j.history_output.unwrap()
            && out.contains_key(ik) && out[ik]@ == self.strategy.input_list(i as usize, &self.dag, self.jobs@)
    }

    /// C08: a job without output that is not merely upstream-failed has no own / input-list record
    spec fn rec_c08(&self, out: Map<String, String>, i: int) -> bool {
        let j = self.jobs@[i];
        let ik = str_of(key_inputs(j.job_id@));
        j.history_output is None && !keeps_j(j) ==> !out.contains_key(j.job_id) && !out.contains_key(ik)
    }

    /// C09: an upstream-failed job keeps its own / input-list record as filtered
    spec fn rec_c09(&self, out1: Map<String, String>, out: Map<String, String>, i: int) -> bool {
        let j = self.jobs@[i];
        let ik = str_of(key_inputs(j.job_id@));
        j.history_output is None && keeps_j(j) ==> same_at(out1, out, j.job_id) && same_at(out1, out, ik)
    }

    /// records of present job i after the per-job loop of new_history (C08, C09, C11)
    spec fn job_rec_ok(&self, out1: Map<String, String>, out: Map<String, String>, i: int) -> bool {
        self.rec_c11(out, i) && self.rec_c08(out, i) && self.rec_c09(out1, out, i)
    }

    /// what the filter at the top of new_history leaves (C18)
    spec fn filtered(&self, out1: Map<String, String>) -> bool {
        &&& forall|k: String| #[trigger] out1.contains_key(k) ==> self.history@.contains_key(k) && out1[k] == self.history@[k]
                && keep_key(self.jobs@, self.job_id_to_node_idx@, &self.dag, k@)
        &&& forall|k: String| self.history@.contains_key(k) && !#[trigger] out1.contains_key(k)
                ==> !keep_key(self.jobs@, self.job_id_to_node_idx@, &self.dag, k@)
    }

    spec fn not_job_key(&self, k: String, upto: int) -> bool {
        forall|i: int| 0 <= i < upto ==> k != (#[trigger] self.jobs@[i]).job_id && k@ != key_inputs(self.jobs@[i].job_id@)
    }

    spec fn job_frame(&self, out1: Map<String, String>, out: Map<String, String>, upto: int) -> bool {
        forall|k: String| self.not_job_key(k, upto) ==> #[trigger] same_at(out1, out, k)
    }

    spec fn edge_key(&self, a: usize, b: usize) -> Seq<char> {
        key_edge(self.jobs@[a as int].job_id@, self.jobs@[b as int].job_id@)
    }

    /// C08: the record of a dependency into a failed / aborted job is left as it was
    spec fn edge_c08(&self, out2: Map<String, String>, out: Map<String, String>, a: usize, b: usize) -> bool {
        !second_success(self.jobs@[b as int]) && !keeps_j(self.jobs@[b as int]) ==> same_at(out2, out, str_of(self.edge_key(a, b)))
    }

    /// C09: the record of a dependency into an upstream-failed job is left as it was
    spec fn edge_c09(&self, out2: Map<String, String>, out: Map<String, String>, a: usize, b: usize) -> bool {
        !second_success(self.jobs@[b as int]) && keeps_j(self.jobs@[b as int]) ==> same_at(out2, out, str_of(self.edge_key(a, b)))
    }

    /// C11: the record of a dependency into a successful job is the upstream's current output
    spec fn edge_c11(&self, out: Map<String, String>, a: usize, b: usize) -> bool {
        let ek = str_of(self.edge_key(a, b));
        second_success(self.jobs@[b as int]) && self.jobs@[a as int].history_output is Some
            ==> out.contains_key(ek) && out[ek] == self.jobs@[a as int].history_output.unwrap()
    }

    spec fn edge_rec_ok(&self, out2: Map<String, String>, out: Map<String, String>, a: usize, b: usize) -> bool {
        self.edge_c08(out2, out, a, b) && self.edge_c09(out2, out, a, b) && self.edge_c11(out, a, b)
    }

    spec fn not_edge_key(&self, k: String, es: Seq<(usize, usize, &EdgeInfo)>, upto: int) -> bool {
        forall|e: int| 0 <= e < upto ==> k@ != self.edge_key((#[trigger] es[e]).0, es[e].1)
    }

    spec fn edge_frame(&self, out2: Map<String, String>, out: Map<String, String>, es: Seq<(usize, usize, &EdgeInfo)>, upto: int) -> bool {
        forall|k: String| self.not_edge_key(k, es, upto) ==> #[trigger] same_at(out2, out, k)
    }
}

proof fn lemma_job_keys_distinct(jobs: Seq<NodeInfo>, m: Map<String, usize>, i: int, k: int)
    requires ids_wf(jobs, m), 0 <= i < jobs.len(), 0 <= k < jobs.len(),
    ensures
        i != k ==> jobs[i].job_id != jobs[k].job_id && jobs[i].job_id@ != jobs[k].job_id@,
        i != k ==> key_inputs(jobs[i].job_id@) != key_inputs(jobs[k].job_id@),
        jobs[i].job_id@ != key_inputs(jobs[k].job_id@),
        valid_id(jobs[i].job_id@), valid_id(jobs[k].job_id@),
{
    broadcast use group_verif_axioms;
    assert(m.contains_key(jobs[i].job_id));
    assert(m.contains_key(jobs[k].job_id));
    if i != k {
        if jobs[i].job_id@ == jobs[k].job_id@ { assert(jobs[i].job_id == jobs[k].job_id); }
    }
}

proof fn lemma_edge_keys_distinct(jobs: Seq<NodeInfo>, m: Map<String, usize>, a: int, b: int, c: int, d: int)
    requires ids_wf(jobs, m), 0 <= a < jobs.len(), 0 <= b < jobs.len(), 0 <= c < jobs.len(), 0 <= d < jobs.len(),
    ensures
        !(a == c && b == d) ==> key_edge(jobs[a].job_id@, jobs[b].job_id@) != key_edge(jobs[c].job_id@, jobs[d].job_id@),
        key_edge(jobs[a].job_id@, jobs[b].job_id@) != jobs[c].job_id@,
        key_edge(jobs[a].job_id@, jobs[b].job_id@) != key_inputs(jobs[c].job_id@),
{
    broadcast use group_verif_axioms;
    lemma_job_keys_distinct(jobs, m, a, c);
    lemma_job_keys_distinct(jobs, m, b, d);
    lemma_job_keys_distinct(jobs, m, a, b);
    lemma_job_keys_distinct(jobs, m, c, d);
}

impl<T: PPGEvaluatorStrategy> PPGEvaluator<T> {
    spec fn ik(&self, i: int) -> String { str_of(key_inputs(self.jobs@[i].job_id@)) }
    spec fn ek(&self, a: usize, b: usize) -> String { str_of(self.edge_key(a, b)) }

    /// everything the two loops of new_history establish
    spec fn nh_loops_done(&self, out1: Map<String, String>, out2: Map<String, String>, r: Map<String, String>,
        es: Seq<(usize, usize, &EdgeInfo)>) -> bool {
        &&& self.wf_core()
        &&& self.filtered(out1)
        &&& forall|i: int| 0 <= i < self.jobs@.len() ==> self.job_rec_ok(out1, out2, i)
        &&& self.job_frame(out1, out2, self.jobs@.len() as int)
        &&& all_edges_seq(&self.dag, es)
        &&& forall|e: int| 0 <= e < es.len() ==> self.edge_rec_ok(out2, r, (#[trigger] es[e]).0, es[e].1)
        &&& self.edge_frame(out2, r, es, es.len() as int)
    }

    /// C11: successful work is recorded faithfully (own output, current input list)
    spec fn post_c11_own(&self, r: Map<String, String>) -> bool {
        forall|i: int| 0 <= i < self.jobs@.len() && (#[trigger] self.jobs@[i]).history_output is Some ==>
            r.contains_key(self.jobs@[i].job_id) && r[self.jobs@[i].job_id] == self.jobs@[i].history_output.unwrap()
            && r.contains_key(self.ik(i)) && r[self.ik(i)]@ == self.strategy.input_list(i as usize, &self.dag, self.jobs@)
    }

    /// C11: for each direct upstream the upstream output it consumed
    spec fn post_c11_edges(&self, r: Map<String, String>) -> bool {
        forall|a: usize, b: usize| #![trigger self.dag.has_edge(a, b)]
            self.dag.has_edge(a, b) && second_success(self.jobs@[b as int]) && self.jobs@[a as int].history_output is Some ==>
            r.contains_key(self.ek(a, b)) && r[self.ek(a, b)] == self.jobs@[a as int].history_output.unwrap()
    }

    /// C08: failed / aborted work has neither an output nor an input-list record; per-dependency
    /// records of what it last consumed are as before
    spec fn post_c08(&self, r: Map<String, String>) -> bool {
        &&& forall|i: int| 0 <= i < self.jobs@.len()
                && (is_exec_failure((#[trigger] self.jobs@[i]).state) || aborted_while_running(self.jobs@[i])) ==>
                !r.contains_key(self.jobs@[i].job_id) && !r.contains_key(self.ik(i))
        &&& forall|u: usize, i: usize| #![trigger self.dag.has_edge(u, i)] self.dag.has_edge(u, i)
                && (is_exec_failure(self.jobs@[i as int].state) || is_aborted(self.jobs@[i as int].state)) ==>
                same_at(self.history@, r, self.ek(u, i))
    }

    /// C09: jobs never started because an upstream failed keep all their records unchanged
    /// (for ids not superseded by another present job; see DESIGN on C18)
    spec fn post_c09(&self, r: Map<String, String>) -> bool {
        &&& forall|i: int| 0 <= i < self.jobs@.len() && keeps_j(#[trigger] self.jobs@[i])
                && self.jobs@[i].history_output is None && !superseded(self.jobs@, self.jobs@[i].job_id@) ==>
                same_at(self.history@, r, self.jobs@[i].job_id) && same_at(self.history@, r, self.ik(i))
        &&& forall|u: usize, i: usize| #![trigger self.dag.has_edge(u, i)] self.dag.has_edge(u, i)
                && keeps_j(self.jobs@[i as int]) && self.jobs@[i as int].history_output is None ==>
                same_at(self.history@, r, self.ek(u, i))
    }

    /// C18: a per-dependency record between two present jobs that do not depend on each other is dropped
    spec fn post_c18_nodep(&self, r: Map<String, String>) -> bool {
        forall|a: usize, b: usize| #![trigger self.ek(a, b)] a < self.jobs@.len() && b < self.jobs@.len() && !self.dag.has_edge(a, b) ==>
            !r.contains_key(self.ek(a, b))
    }

    spec fn is_present_key(&self, k: String) -> bool {
        ||| exists|i: int| 0 <= i < self.jobs@.len() && (k == (#[trigger] self.jobs@[i]).job_id || k == self.ik(i))
        ||| exists|a: usize, b: usize| #![trigger self.dag.has_edge(a, b)] self.dag.has_edge(a, b) && k == self.ek(a, b)
    }

    /// C18: every record returned either was in the input history or describes a job or dependency
    /// of the current graph
    spec fn post_c18_subset(&self, r: Map<String, String>) -> bool {
        forall|k: String| #[trigger] r.contains_key(k) ==> (self.history@.contains_key(k) && r[k] == self.history@[k]) || self.is_present_key(k)
    }

    spec fn kept_unless_superseded(&self, r: Map<String, String>, k: String, owner: Seq<char>) -> bool {
        &&& (r.contains_key(k) <==> self.history@.contains_key(k) && !superseded(self.jobs@, owner))
        &&& (r.contains_key(k) ==> r[k] == self.history@[k])
    }

    /// C18: records of jobs absent from the current graph are returned unchanged, unless superseded
    spec fn post_c18_absent(&self, r: Map<String, String>) -> bool {
        &&& forall|a: Seq<char>| #![trigger str_of(a)] valid_id(a) && !id_known(self.job_id_to_node_idx@, a) ==>
                self.kept_unless_superseded(r, str_of(a), a)
        &&& forall|a: Seq<char>| #![trigger key_inputs(a)] valid_id(a) && !id_known(self.job_id_to_node_idx@, a) ==>
                self.kept_unless_superseded(r, str_of(key_inputs(a)), a)
        &&& forall|a: Seq<char>, b: Seq<char>| #![trigger key_edge(a, b)] valid_id(a) && valid_id(b)
                && (!id_known(self.job_id_to_node_idx@, a) || !id_known(self.job_id_to_node_idx@, b)) ==>
                self.kept_unless_superseded(r, str_of(key_edge(a, b)), a)
    }

    proof fn lemma_known_idx(&self, i: int)
        requires self.wf_core(), 0 <= i < self.jobs@.len(),
        ensures id_known(self.job_id_to_node_idx@, self.jobs@[i].job_id@),
            id_idx(self.job_id_to_node_idx@, self.jobs@[i].job_id@) == i,
    {
        broadcast use group_verif_axioms;
        let m = self.job_id_to_node_idx@;
        assert(m.contains_key(self.jobs@[i].job_id));
        let s = choose|s: String| #![trigger m.contains_key(s)] s@ == self.jobs@[i].job_id@ && m.contains_key(s);
        assert(s == self.jobs@[i].job_id);
    }

    proof fn lemma_known_is_present(&self, a: Seq<char>)
        requires self.wf_core(), id_known(self.job_id_to_node_idx@, a),
        ensures exists|i: int| 0 <= i < self.jobs@.len() && #[trigger] self.jobs@[i].job_id@ == a,
    {
        let m = self.job_id_to_node_idx@;
        let s = choose|s: String| #![trigger m.contains_key(s)] s@ == a && m.contains_key(s);
        assert(self.jobs@[m[s] as int].job_id@ == a);
    }

    /// a key that is neither a present job's own/input key nor a present edge's key passes both loops untouched
    proof fn lemma_untouched(&self, out1: Map<String, String>, out2: Map<String, String>, r: Map<String, String>,
        es: Seq<(usize, usize, &EdgeInfo)>, k: String)
        requires self.nh_loops_done(out1, out2, r, es),
            self.not_job_key(k, self.jobs@.len() as int),
            self.not_edge_key(k, es, es.len() as int),
        ensures same_at(out1, r, k),
    {
        assert(same_at(out1, out2, k));
        assert(same_at(out2, r, k));
    }

    proof fn lemma_job_keys_not_edge_keys(&self, es: Seq<(usize, usize, &EdgeInfo)>, i: int)
        requires self.wf_core(), all_edges_seq(&self.dag, es), 0 <= i < self.jobs@.len(),
        ensures self.not_edge_key(self.jobs@[i].job_id, es, es.len() as int),
            self.not_edge_key(self.ik(i), es, es.len() as int),
    {
        broadcast use group_verif_axioms;
        assert forall|e: int| 0 <= e < es.len() implies self.jobs@[i].job_id@ != self.edge_key((#[trigger] es[e]).0, es[e].1)
            && self.ik(i)@ != self.edge_key(es[e].0, es[e].1) by {
            assert(self.dag.has_edge(es[e].0, es[e].1));
            lemma_edge_keys_distinct(self.jobs@, self.job_id_to_node_idx@, es[e].0 as int, es[e].1 as int, i, i);
        }
    }

    proof fn lemma_edge_key_not_job_key(&self, a: usize, b: usize)
        requires self.wf_core(), a < self.jobs@.len(), b < self.jobs@.len(),
        ensures self.not_job_key(self.ek(a, b), self.jobs@.len() as int),
    {
        broadcast use group_verif_axioms;
        assert forall|i: int| 0 <= i < self.jobs@.len() implies self.ek(a, b) != (#[trigger] self.jobs@[i]).job_id
            && self.ek(a, b)@ != key_inputs(self.jobs@[i].job_id@) by {
            lemma_edge_keys_distinct(self.jobs@, self.job_id_to_node_idx@, a as int, b as int, i, i);
        }
    }

    /// the filter's verdict on the record of a present edge / a pair of present jobs
    proof fn lemma_keep_edge_key(&self, a: usize, b: usize)
        requires self.wf_core(), a < self.jobs@.len(), b < self.jobs@.len(),
        ensures keep_key(self.jobs@, self.job_id_to_node_idx@, &self.dag, self.ek(a, b)@) == self.dag.has_edge(a, b),
    {
        broadcast use group_verif_axioms;
        broadcast use group_verif_str_axioms;
        lemma_job_keys_distinct(self.jobs@, self.job_id_to_node_idx@, a as int, b as int);
        self.lemma_known_idx(a as int);
        self.lemma_known_idx(b as int);
        let k = self.ek(a, b)@;
        assert(k == key_edge(self.jobs@[a as int].job_id@, self.jobs@[b as int].job_id@));
        assert(str_contains_sep(k));
        assert(str_split_once(k, "!!!"@) == Some((self.jobs@[a as int].job_id@, self.jobs@[b as int].job_id@)));
    }

    proof fn lemma_post_c11(&self, out1: Map<String, String>, out2: Map<String, String>, r: Map<String, String>,
        es: Seq<(usize, usize, &EdgeInfo)>)
        requires self.nh_loops_done(out1, out2, r, es),
        ensures self.post_c11_own(r), self.post_c11_edges(r),
    {
        assert forall|i: int| 0 <= i < self.jobs@.len() && (#[trigger] self.jobs@[i]).history_output is Some implies
            r.contains_key(self.jobs@[i].job_id) && r[self.jobs@[i].job_id] == self.jobs@[i].history_output.unwrap()
            && r.contains_key(self.ik(i)) && r[self.ik(i)]@ == self.strategy.input_list(i as usize, &self.dag, self.jobs@) by {
            assert(self.job_rec_ok(out1, out2, i));
            self.lemma_job_keys_not_edge_keys(es, i);
            assert(same_at(out2, r, self.jobs@[i].job_id));
            assert(same_at(out2, r, self.ik(i)));
        }
        assert forall|a: usize, b: usize| #![trigger self.dag.has_edge(a, b)]
            self.dag.has_edge(a, b) && second_success(self.jobs@[b as int]) && self.jobs@[a as int].history_output is Some implies
            r.contains_key(self.ek(a, b)) && r[self.ek(a, b)] == self.jobs@[a as int].history_output.unwrap() by {
            let e = choose|e: int| 0 <= e < es.len() && (#[trigger] es[e]).0 == a && es[e].1 == b;
            assert(self.edge_rec_ok(out2, r, es[e].0, es[e].1));
        }
    }

    proof fn lemma_post_c08_c09(&self, out1: Map<String, String>, out2: Map<String, String>, r: Map<String, String>,
        es: Seq<(usize, usize, &EdgeInfo)>)
        requires self.nh_loops_done(out1, out2, r, es),
        ensures self.post_c08(r), self.post_c09(r),
    {
        broadcast use group_verif_axioms;
        broadcast use group_verif_str_axioms;
        assert forall|i: int| 0 <= i < self.jobs@.len() && (#[trigger] self.jobs@[i]).history_output is None implies
            (!keeps_j(self.jobs@[i]) ==> !r.contains_key(self.jobs@[i].job_id) && !r.contains_key(self.ik(i)))
            && (keeps_j(self.jobs@[i]) && !superseded(self.jobs@, self.jobs@[i].job_id@) ==>
                same_at(self.history@, r, self.jobs@[i].job_id) && same_at(self.history@, r, self.ik(i))) by {
            assert(self.job_rec_ok(out1, out2, i));
            self.lemma_job_keys_not_edge_keys(es, i);
            assert(same_at(out2, r, self.jobs@[i].job_id));
            assert(same_at(out2, r, self.ik(i)));
            lemma_job_keys_distinct(self.jobs@, self.job_id_to_node_idx@, i, i);
            let id = self.jobs@[i].job_id@;
            assert(!str_contains_sep(id));
            assert(keep_key(self.jobs@, self.job_id_to_node_idx@, &self.dag, id) == !superseded(self.jobs@, id));
            assert(str_split_once(key_inputs(id), "!!!"@) == Some((id, Seq::<char>::empty())));
            assert(keep_key(self.jobs@, self.job_id_to_node_idx@, &self.dag, key_inputs(id)) == !superseded(self.jobs@, id));
        }
        assert forall|i: int| 0 <= i < self.jobs@.len() implies out_wf_one(#[trigger] self.jobs@[i]) by {}
        assert forall|u: usize, i: usize| #![trigger self.dag.has_edge(u, i)] self.dag.has_edge(u, i)
            && !second_success(self.jobs@[i as int]) implies same_at(self.history@, r, self.ek(u, i)) by {
            let e = choose|e: int| 0 <= e < es.len() && (#[trigger] es[e]).0 == u && es[e].1 == i;
            assert(self.edge_rec_ok(out2, r, es[e].0, es[e].1));
            self.lemma_edge_key_not_job_key(u, i);
            assert(same_at(out1, out2, self.ek(u, i)));
            self.lemma_keep_edge_key(u, i);
        }
        assert forall|i: int| 0 <= i < self.jobs@.len() && (is_exec_failure((#[trigger] self.jobs@[i]).state) || aborted_while_running(self.jobs@[i]))
            implies self.jobs@[i].history_output is None && !second_success(self.jobs@[i]) && !keeps_j(self.jobs@[i]) by {
            assert(out_wf_one(self.jobs@[i]));
        }
        assert forall|u: usize, i: usize| #![trigger self.dag.has_edge(u, i)] self.dag.has_edge(u, i)
            && (is_exec_failure(self.jobs@[i as int].state) || is_aborted(self.jobs@[i as int].state)) implies
            same_at(self.history@, r, self.ek(u, i)) by {
            assert(out_wf_one(self.jobs@[i as int]));
        }
        assert forall|u: usize, i: usize| #![trigger self.dag.has_edge(u, i)] self.dag.has_edge(u, i)
            && keeps_j(self.jobs@[i as int]) && self.jobs@[i as int].history_output is None implies
            same_at(self.history@, r, self.ek(u, i)) by {
            assert(!second_success(self.jobs@[i as int]));
        }
    }

    proof fn lemma_post_c18_nodep(&self, out1: Map<String, String>, out2: Map<String, String>, r: Map<String, String>,
        es: Seq<(usize, usize, &EdgeInfo)>)
        requires self.nh_loops_done(out1, out2, r, es),
        ensures self.post_c18_nodep(r),
    {
        broadcast use group_verif_axioms;
        broadcast use group_verif_str_axioms;
        let n = self.jobs@.len() as int;
        let m = self.job_id_to_node_idx@;
        // --- nodep
        assert forall|a: usize, b: usize| #![trigger self.ek(a, b)] a < n && b < n && !self.dag.has_edge(a, b) implies
            !r.contains_key(self.ek(a, b)) by {
            self.lemma_edge_key_not_job_key(a, b);
            assert(self.not_edge_key(self.ek(a, b), es, es.len() as int)) by {
                assert forall|e: int| 0 <= e < es.len() implies self.ek(a, b)@ != self.edge_key((#[trigger] es[e]).0, es[e].1) by {
                    assert(self.dag.has_edge(es[e].0, es[e].1));
                    lemma_edge_keys_distinct(self.jobs@, m, a as int, b as int, es[e].0 as int, es[e].1 as int);
                }
            }
            self.lemma_untouched(out1, out2, r, es, self.ek(a, b));
            self.lemma_keep_edge_key(a, b);
        }
    }

    proof fn lemma_post_c18_subset(&self, out1: Map<String, String>, out2: Map<String, String>, r: Map<String, String>,
        es: Seq<(usize, usize, &EdgeInfo)>)
        requires self.nh_loops_done(out1, out2, r, es),
        ensures self.post_c18_subset(r),
    {
        broadcast use group_verif_axioms;
        broadcast use group_verif_str_axioms;
        let n = self.jobs@.len() as int;
        let m = self.job_id_to_node_idx@;
        // --- subset
        assert forall|k: String| #[trigger] r.contains_key(k) implies
            (self.history@.contains_key(k) && r[k] == self.history@[k]) || self.is_present_key(k) by {
            if !self.is_present_key(k) {
                assert(self.not_job_key(k, n)) by {
                    assert forall|i: int| 0 <= i < n implies k != (#[trigger] self.jobs@[i]).job_id && k@ != key_inputs(self.jobs@[i].job_id@) by {
                        if k@ == key_inputs(self.jobs@[i].job_id@) { assert(k == self.ik(i)); }
                    }
                }
                assert(self.not_edge_key(k, es, es.len() as int)) by {
                    assert forall|e: int| 0 <= e < es.len() implies k@ != self.edge_key((#[trigger] es[e]).0, es[e].1) by {
                        assert(self.dag.has_edge(es[e].0, es[e].1));
                        if k@ == self.edge_key(es[e].0, es[e].1) { assert(k == self.ek(es[e].0, es[e].1)); }
                    }
                }
                self.lemma_untouched(out1, out2, r, es, k);
            }
        }
    }

    proof fn lemma_post_c18_absent_job(&self, out1: Map<String, String>, out2: Map<String, String>, r: Map<String, String>,
        es: Seq<(usize, usize, &EdgeInfo)>)
        requires self.nh_loops_done(out1, out2, r, es),
        ensures
            forall|a: Seq<char>| #![trigger str_of(a)] valid_id(a) && !id_known(self.job_id_to_node_idx@, a) ==>
                self.kept_unless_superseded(r, str_of(a), a),
            forall|a: Seq<char>| #![trigger key_inputs(a)] valid_id(a) && !id_known(self.job_id_to_node_idx@, a) ==>
                self.kept_unless_superseded(r, str_of(key_inputs(a)), a),
    {
        broadcast use group_verif_axioms;
        broadcast use group_verif_str_axioms;
        let n = self.jobs@.len() as int;
        let m = self.job_id_to_node_idx@;
        // --- absent
        assert forall|a: Seq<char>| #![trigger valid_id(a)] valid_id(a) && !id_known(self.job_id_to_node_idx@, a) implies
            self.kept_unless_superseded(r, str_of(a), a) && self.kept_unless_superseded(r, str_of(key_inputs(a)), a) by {
            let k1 = str_of(a);
            let k2 = str_of(key_inputs(a));
            assert forall|i: int| 0 <= i < n implies (#[trigger] self.jobs@[i]).job_id@ != a by {
                if self.jobs@[i].job_id@ == a { assert(m.contains_key(self.jobs@[i].job_id)); }
            }
            assert(self.not_job_key(k1, n) && self.not_job_key(k2, n)) by {
                assert forall|i: int| 0 <= i < n implies k1 != (#[trigger] self.jobs@[i]).job_id && k1@ != key_inputs(self.jobs@[i].job_id@)
                    && k2 != self.jobs@[i].job_id && k2@ != key_inputs(self.jobs@[i].job_id@) by {
                    lemma_job_keys_distinct(self.jobs@, m, i, i);
                }
            }
            assert(self.not_edge_key(k1, es, es.len() as int) && self.not_edge_key(k2, es, es.len() as int)) by {
                assert forall|e: int| 0 <= e < es.len() implies k1@ != self.edge_key((#[trigger] es[e]).0, es[e].1)
                    && k2@ != self.edge_key(es[e].0, es[e].1) by {
                    assert(self.dag.has_edge(es[e].0, es[e].1));
                    lemma_job_keys_distinct(self.jobs@, m, es[e].0 as int, es[e].1 as int);
                }
            }
            self.lemma_untouched(out1, out2, r, es, k1);
            self.lemma_untouched(out1, out2, r, es, k2);
            assert(str_split_once(key_inputs(a), "!!!"@) == Some((a, Seq::<char>::empty())));
            assert(same_at(self.history@, out1, k1) || !self.history@.contains_key(k1) || superseded(self.jobs@, a));
            assert(self.kept_unless_superseded(r, k1, a));
            assert(self.kept_unless_superseded(r, k2, a));
        }
    }

    proof fn lemma_post_c18_absent_edge(&self, out1: Map<String, String>, out2: Map<String, String>, r: Map<String, String>,
        es: Seq<(usize, usize, &EdgeInfo)>)
        requires self.nh_loops_done(out1, out2, r, es),
        ensures forall|a: Seq<char>, b: Seq<char>| #![trigger key_edge(a, b)] valid_id(a) && valid_id(b)
                && (!id_known(self.job_id_to_node_idx@, a) || !id_known(self.job_id_to_node_idx@, b)) ==>
                self.kept_unless_superseded(r, str_of(key_edge(a, b)), a),
    {
        broadcast use group_verif_axioms;
        broadcast use group_verif_str_axioms;
        let n = self.jobs@.len() as int;
        let m = self.job_id_to_node_idx@;
        assert forall|a: Seq<char>, b: Seq<char>| #![trigger key_edge(a, b)] valid_id(a) && valid_id(b)
            && (!id_known(m, a) || !id_known(m, b)) implies
            self.kept_unless_superseded(r, str_of(key_edge(a, b)), a) by {
            let k = str_of(key_edge(a, b));
            assert(self.not_job_key(k, n)) by {
                assert forall|i: int| 0 <= i < n implies k != (#[trigger] self.jobs@[i]).job_id && k@ != key_inputs(self.jobs@[i].job_id@) by {
                    lemma_job_keys_distinct(self.jobs@, m, i, i);
                }
            }
            assert(self.not_edge_key(k, es, es.len() as int)) by {
                assert forall|e: int| 0 <= e < es.len() implies k@ != self.edge_key((#[trigger] es[e]).0, es[e].1) by {
                    assert(self.dag.has_edge(es[e].0, es[e].1));
                    lemma_job_keys_distinct(self.jobs@, m, es[e].0 as int, es[e].1 as int);
                    if k@ == self.edge_key(es[e].0, es[e].1) {
                        self.lemma_known_idx(es[e].0 as int);
                        self.lemma_known_idx(es[e].1 as int);
                    }
                }
            }
            self.lemma_untouched(out1, out2, r, es, k);
            assert(str_split_once(key_edge(a, b), "!!!"@) == Some((a, b)));
        }
    }

    proof fn lemma_post_c18(&self, out1: Map<String, String>, out2: Map<String, String>, r: Map<String, String>,
        es: Seq<(usize, usize, &EdgeInfo)>)
        requires self.nh_loops_done(out1, out2, r, es),
        ensures self.post_c18_nodep(r), self.post_c18_subset(r), self.post_c18_absent(r),
    {
        self.lemma_post_c18_nodep(out1, out2, r, es);
        self.lemma_post_c18_subset(out1, out2, r, es);
        self.lemma_post_c18_absent_job(out1, out2, r, es);
        self.lemma_post_c18_absent_edge(out1, out2, r, es);
    }
}

// ---- validation vocabulary (C03 / C15 / C16)
/// the record of what `down` last consumed from `up` (C03: "the output that execution consumed").
/// The fallback through `renamed_id` mirrors R8b (a renamed multi-output upstream); it is the only
/// part of this definition taken from the code rather than from the statement.
spec fn edge_record(h: Map<String, String>, up_id: Seq<char>, down_id: Seq<char>) -> Option<String> {
    let key = str_of(key_edge(up_id, down_id));
    if h.contains_key(key) {
        Some(h[key])
    } else {
        match renamed_id(up_id, down_id, h) {
            Some(x) => if h.contains_key(str_of(x)) { Some(h[str_of(x)]) } else { None },
            None => None,
        }
    }
}

/// C15: whether the edge invalidates is "no record" or what the configured comparison says about
/// (record, current output); None = the engine cannot decide (no current output although a record exists)
spec fn edge_verdict(strategy: &dyn PPGEvaluatorStrategy, h: Map<String, String>, jobs: Seq<NodeInfo>, up: usize, down: usize) -> Option<bool> {
    match edge_record(h, jobs[up as int].job_id@, jobs[down as int].job_id@) {
        None => Some(true),
        Some(l) => match jobs[up as int].history_output {
            None => None,
            Some(c) => Some(strategy.altered(jobs[up as int].job_id@, jobs[down as int].job_id@, l@, c@)),
        },
    }
}

spec fn edge_inv_spec(dag: &GraphType, strategy: &dyn PPGEvaluatorStrategy, h: Map<String, String>, jobs: Seq<NodeInfo>, up: usize, down: usize) -> Option<bool> {
    match dag.edges()[(up, down)].invalidated {
        Required::Yes => Some(true),
        Required::No => Some(false),
        Required::Unknown => edge_verdict(strategy, h, jobs, up, down),
    }
}

spec fn req_of(b: bool) -> Required { if b { Required::Yes } else { Required::No } }

/// dag1 is dag0 except for the weight of edge (a,b)
spec fn dag_same_but(dag0: &GraphType, dag1: &GraphType, a: usize, b: usize) -> bool {
    &&& dag1.nodes_set() == dag0.nodes_set()
    &&& dag1.edges().dom() =~= dag0.edges().dom()
    &&& forall|x: usize, y: usize| #![trigger dag1.edges()[(x, y)]] !(x == a && y == b) ==> dag1.edges()[(x, y)] == dag0.edges()[(x, y)]
}

/// how update_validation_status treats an upstream: 0 = judged through its edge (finished, or a
/// validated Output), 1 = validated Ephemeral that has not run (judged through recorded outputs),
/// 2 = still pending
spec fn vclass(s: JobState) -> int {
    if finished(s) || s == JobState::Output(JobStateOutput::NotReady(ValidationStatus::Validated)) {
        0
    } else if s == JobState::Ephemeral(JobStateEphemeral::ReadyButDelayed)
        || s == JobState::Ephemeral(JobStateEphemeral::NotReady(ValidationStatus::Validated)) {
        1
    } else {
        2
    }
}

/// C03 / C15: does upstream u invalidate n?  None = the engine reports an internal error.
spec fn up_invalidating(dag0: &GraphType, strategy: &dyn PPGEvaluatorStrategy, h: Map<String, String>,
    jobs: Seq<NodeInfo>, u: usize, n: usize) -> Option<bool> {
    let c = vclass(jobs[u as int].state);
    if c == 0 {
        edge_inv_spec(dag0, strategy, h, jobs, u, n)
    } else if c == 1 {
        if !h.contains_key(jobs[u as int].job_id) {
            None
        } else {
            let k = str_of(key_edge(jobs[u as int].job_id@, jobs[n as int].job_id@));
            if !h.contains_key(k) {
                Some(true)
            } else {
                Some(strategy.altered(jobs[u as int].job_id@, jobs[n as int].job_id@, h[k]@, h[jobs[u as int].job_id]@))
            }
        }
    } else {
        Some(false)
    }
}

// ---- signals
spec fn sigs_valid(s: Seq<Signal>, n: nat) -> bool {
    forall|k: int| 0 <= k < s.len() ==> (#[trigger] s[k]).node_idx < n && s[k].kind != SignalKind::JobFinishedSuccess
}

/// pending signals: valid node, and a pending "finished successfully" carries the reported output
/// (the cascade itself never creates such a signal)
spec fn sigs_ok(s: Seq<Signal>, jobs: Seq<NodeInfo>) -> bool {
    forall|k: int| 0 <= k < s.len() ==> (#[trigger] s[k]).node_idx < jobs.len()
        && (s[k].kind == SignalKind::JobFinishedSuccess ==> jobs[s[k].node_idx as int].history_output is Some)
}

proof fn lemma_sigs_ok_step(s: Seq<Signal>, a: Seq<NodeInfo>, b: Seq<NodeInfo>)
    requires sigs_ok(s, a), jobs_step(a, b),
    ensures sigs_ok(s, b),
{
    assert forall|k: int| 0 <= k < s.len() implies (#[trigger] s[k]).node_idx < b.len()
        && (s[k].kind == SignalKind::JobFinishedSuccess ==> b[s[k].node_idx as int].history_output is Some) by {
        let i = s[k].node_idx as int;
        assert(a[i].history_output is Some ==> b[i].history_output == a[i].history_output);
    }
}

proof fn lemma_sigs_valid_ok(s: Seq<Signal>, jobs: Seq<NodeInfo>)
    requires sigs_valid(s, jobs.len()),
    ensures sigs_ok(s, jobs),
{
}

/// helper-level frames on the job table
spec fn jobs_touch(a: Seq<NodeInfo>, b: Seq<NodeInfo>) -> bool {
    &&& a.len() == b.len()
    &&& forall|i: int| 0 <= i < a.len() ==> (#[trigger] b[i]).job_id == a[i].job_id && b[i].history_output == a[i].history_output
            && b[i].state == a[i].state && ab_flag(b[i]) == ab_flag(a[i])
}

/// only pre-offer states move (within pre-offer); ids and outputs untouched
spec fn jobs_soft(a: Seq<NodeInfo>, b: Seq<NodeInfo>) -> bool {
    &&& a.len() == b.len()
    &&& forall|i: int| 0 <= i < a.len() ==> (#[trigger] b[i]).job_id == a[i].job_id && b[i].history_output == a[i].history_output
            && ab_flag(b[i]) == ab_flag(a[i])
            && (b[i].state == a[i].state || (pre_offer(a[i].state) && pre_offer(b[i].state) && same_kind(a[i].state, b[i].state)
                && pre_le(a[i].state, b[i].state)))
}

/// `b` extends `a` by ConsiderJob signals for valid nodes only
spec fn sig_ext_consider(a: Seq<Signal>, b: Seq<Signal>, n: nat) -> bool {
    &&& a.len() <= b.len()
    &&& forall|k: int| 0 <= k < a.len() ==> #[trigger] b[k] == a[k]
    &&& forall|k: int| a.len() <= k < b.len() ==> (#[trigger] b[k]).kind == SignalKind::ConsiderJob && b[k].node_idx < n
}

proof fn lemma_sig_ext_trans(a: Seq<Signal>, b: Seq<Signal>, c: Seq<Signal>, n: nat)
    requires sig_ext_consider(a, b, n), sig_ext_consider(b, c, n),
    ensures sig_ext_consider(a, c, n),
{
    assert forall|k: int| 0 <= k < a.len() implies #[trigger] c[k] == a[k] by { assert(b[k] == a[k]); }
}

proof fn lemma_sig_ext_valid(a: Seq<Signal>, b: Seq<Signal>, n: nat)
    requires sig_ext_consider(a, b, n), sigs_valid(a, n),
    ensures sigs_valid(b, n),
{
    assert forall|k: int| 0 <= k < b.len() implies (#[trigger] b[k]).node_idx < n && b[k].kind != SignalKind::JobFinishedSuccess by {
        if k < a.len() { assert(b[k] == a[k]); }
    }
}

proof fn lemma_jobs_touch_trans(a: Seq<NodeInfo>, b: Seq<NodeInfo>, c: Seq<NodeInfo>)
    requires jobs_touch(a, b), jobs_touch(b, c),
    ensures jobs_touch(a, c),
{
    assert forall|i: int| 0 <= i < a.len() implies (#[trigger] c[i]).job_id == a[i].job_id && c[i].history_output == a[i].history_output
        && c[i].state == a[i].state by { assert(b[i].job_id == a[i].job_id); }
}

// ---- cleanup (C13)
spec fn is_nrfc(s: JobState) -> bool { s == JobState::Ephemeral(JobStateEphemeral::FinishedSuccessNotReadyForCleanup) }
spec fn is_skipfc(s: JobState) -> bool { s == JobState::Ephemeral(JobStateEphemeral::FinishedSuccessSkipCleanup) }

/// what consider_upstreams_for_cleanup may do to the job table: ids / outputs fixed, a state
/// changes only from "executed, cleanup pending" to "offered for cleanup" or "cleanup skipped"
spec fn cleanup_frame(a: Seq<NodeInfo>, b: Seq<NodeInfo>) -> bool {
    &&& a.len() == b.len()
    &&& forall|i: int| 0 <= i < a.len() ==> (#[trigger] b[i]).job_id == a[i].job_id && b[i].history_output == a[i].history_output
            && ab_flag(b[i]) == ab_flag(a[i])
            && (b[i].state == a[i].state || (is_nrfc(a[i].state) && (is_rfc(b[i].state) || is_skipfc(b[i].state))))
}

/// C13: the decision for one executed Ephemeral e, judged on the states at the time of the call
spec fn cleanup_decided(dag: &GraphType, jobs0: Seq<NodeInfo>, e: usize, new_state: JobState) -> bool {
    let all_ok = forall|d: usize| #![trigger dag.is_nbr(e, Direction::Outgoing, d)] dag.is_nbr(e, Direction::Outgoing, d)
        ==> finished(jobs0[d as int].state) && !failed(jobs0[d as int].state);
    if !is_nrfc(jobs0[e as int].state) {
        new_state == jobs0[e as int].state
    } else {
        &&& (is_rfc(new_state) <==> all_ok)
        &&& (is_nrfc(new_state) ==> exists|d: usize| #![trigger dag.is_nbr(e, Direction::Outgoing, d)] dag.is_nbr(e, Direction::Outgoing, d) && !finished(jobs0[d as int].state))
        &&& (is_skipfc(new_state) ==> exists|d: usize| #![trigger dag.is_nbr(e, Direction::Outgoing, d)] dag.is_nbr(e, Direction::Outgoing, d) && failed(jobs0[d as int].state))
        &&& (is_rfc(new_state) || is_nrfc(new_state) || is_skipfc(new_state))
    }
}

/// one iteration of consider_upstreams_for_cleanup's outer loop
proof fn lemma_cleanup_step(dag: &GraphType, jobs0: Seq<NodeInfo>, j0: Seq<NodeInfo>, j1: Seq<NodeInfo>,
    set0: Set<String>, set1: Set<String>, e: usize)
    requires
        cleanup_frame(jobs0, j0), one_changed(j0, j1, e as int),
        j1[e as int].history_output == j0[e as int].history_output,
        ab_flag(j1[e as int]) == ab_flag(j0[e as int]),
        j0[e as int].state == jobs0[e as int].state,
        forall|i: int, k: int| 0 <= i < j0.len() && 0 <= k < j0.len() && i != k ==> (#[trigger] j0[i]).job_id != (#[trigger] j0[k]).job_id,
        forall|i: int| 0 <= i < j0.len() ==> (is_rfc(#[trigger] j0[i].state) <==> set0.contains(j0[i].job_id)),
        j1[e as int].state == j0[e as int].state && set1 == set0
            || is_nrfc(j0[e as int].state) && is_rfc(j1[e as int].state) && set1 == set0.insert(j0[e as int].job_id)
            || is_nrfc(j0[e as int].state) && is_skipfc(j1[e as int].state) && set1 == set0,
    ensures
        cleanup_frame(jobs0, j1),
        forall|i: int, k: int| 0 <= i < j1.len() && 0 <= k < j1.len() && i != k ==> (#[trigger] j1[i]).job_id != (#[trigger] j1[k]).job_id,
        forall|i: int| 0 <= i < j1.len() ==> (is_rfc(#[trigger] j1[i].state) <==> set1.contains(j1[i].job_id)),
{
    assert forall|i: int| 0 <= i < jobs0.len() implies (#[trigger] j1[i]).job_id == jobs0[i].job_id && j1[i].history_output == jobs0[i].history_output
        && ab_flag(j1[i]) == ab_flag(jobs0[i])
        && (j1[i].state == jobs0[i].state || (is_nrfc(jobs0[i].state) && (is_rfc(j1[i].state) || is_skipfc(j1[i].state)))) by {
        if i != e as int { assert(j1[i].state == j0[i].state && j1[i].job_id == j0[i].job_id && j1[i].history_output == j0[i].history_output
            && ab_flag(j1[i]) == ab_flag(j0[i])); }
        assert(j0[i].job_id == jobs0[i].job_id);
    }
    assert forall|i: int, k: int| 0 <= i < j1.len() && 0 <= k < j1.len() && i != k implies (#[trigger] j1[i]).job_id != (#[trigger] j1[k]).job_id by {
        assert(j1[i].job_id == j0[i].job_id);
        assert(j1[k].job_id == j0[k].job_id);
        assert(j0[i].job_id != j0[k].job_id);
    }
    assert forall|i: int| 0 <= i < j1.len() implies (is_rfc(#[trigger] j1[i].state) <==> set1.contains(j1[i].job_id)) by {
        if i != e as int {
            assert(j1[i].state == j0[i].state && j1[i].job_id == j0[i].job_id);
            assert(j0[i].job_id != j0[e as int].job_id);
            assert(is_rfc(j0[i].state) <==> set0.contains(j0[i].job_id));
        } else {
            assert(is_rfc(j0[i].state) <==> set0.contains(j0[i].job_id));
        }
    }
}

// ---- the cascade invariant over the evaluator's fields (usable from the static helper functions)
spec fn core_ok(jobs: Seq<NodeInfo>, m: Map<String, usize>, dag: &GraphType, ready: Set<String>, cleanup: Set<String>, fin: bool) -> bool {
    &&& ids_wf(jobs, m)
    &&& edges_in_range(dag, jobs.len())
    &&& ready_set_wf(jobs, ready, m)
    &&& cleanup_set_wf(jobs, cleanup, m)
    &&& out_wf(jobs)
    &&& (fin ==> forall|i: int| 0 <= i < jobs.len() ==> finished(#[trigger] jobs[i].state))
    &&& gates_ok(jobs, dag)
}

/// states that presuppose finished upstreams (C02): offered, running, executed successfully, and the
/// "ready but delayed" Ephemeral
spec fn needs_up(s: JobState) -> bool {
    is_ready(s) || is_running(s) || ran_ok(s) || s == JobState::Ephemeral(JobStateEphemeral::ReadyButDelayed)
}

spec fn all_down_done(dag: &GraphType, jobs: Seq<NodeInfo>, n: usize) -> bool {
    forall|d: usize| #![trigger dag.is_nbr(n, Direction::Outgoing, d)]
        dag.is_nbr(n, Direction::Outgoing, d) ==> finished(jobs[d as int].state)
}

/// an executed Ephemeral whose cleanup was offered or done
spec fn cleanup_reached(s: JobState) -> bool {
    is_rfc(s) || s == JobState::Ephemeral(JobStateEphemeral::FinishedSuccessCleanedUp)
}

/// G1 (C02): a job that is offered / running / done successfully has only finished direct upstreams;
/// G2 (C02, C13): an Ephemeral whose cleanup was offered has only finished direct downstreams
spec fn gates_ok(jobs: Seq<NodeInfo>, dag: &GraphType) -> bool {
    &&& forall|i: int| 0 <= i < jobs.len() && needs_up(#[trigger] jobs[i].state) ==> all_up_done(dag, jobs, i as usize)
    &&& forall|i: int| 0 <= i < jobs.len() && cleanup_reached(#[trigger] jobs[i].state) ==> all_down_done(dag, jobs, i as usize)
    &&& blank_skips_ok(jobs, dag)
    &&& flags_ok(jobs)
    &&& uf_cause_ok(jobs, dag)
}

/// job n has a direct upstream that failed or is upstream-failed
spec fn has_failed_up(dag: &GraphType, jobs: Seq<NodeInfo>, n: usize) -> bool {
    exists|u: usize| #![trigger dag.is_nbr(n, Direction::Incoming, u)] dag.is_nbr(n, Direction::Incoming, u) && fail_cause(jobs[u as int].state)
}

/// G3a (C07): nobody is upstream-failed unless one of its direct upstreams failed or is upstream-failed
spec fn uf_cause_ok(jobs: Seq<NodeInfo>, dag: &GraphType) -> bool {
    forall|i: int| #![trigger upfailed(jobs[i].state)] 0 <= i < jobs.len() && upfailed(jobs[i].state) ==> has_failed_up(dag, jobs, i as usize)
}

proof fn lemma_uf_none(jobs: Seq<NodeInfo>, dag: &GraphType)
    requires forall|i: int| #![trigger upfailed(jobs[i].state)] 0 <= i < jobs.len() ==> !upfailed(jobs[i].state),
    ensures uf_cause_ok(jobs, dag),
{
}

/// a cause stays a cause: failed and upstream-failed are final, and the dependency is still there
proof fn lemma_failed_up_step(dag: &GraphType, dag2: &GraphType, a: Seq<NodeInfo>, b: Seq<NodeInfo>, n: usize)
    requires
        has_failed_up(dag, a, n), a.len() == b.len(), edges_in_range(dag, a.len()),
        forall|i: int| 0 <= i < a.len() && fail_cause(a[i].state) ==> fail_cause(#[trigger] b[i].state),
        forall|x: usize, y: usize| #![trigger dag.has_edge(x, y)] dag.has_edge(x, y) ==> dag2.has_edge(x, y),
    ensures has_failed_up(dag2, b, n),
{
    reveal(has_failed_up);
    let u = choose|u: usize| #![trigger dag.is_nbr(n, Direction::Incoming, u)] dag.is_nbr(n, Direction::Incoming, u) && fail_cause(a[u as int].state);
    assert(dag.has_edge(u, n));
    assert(dag2.has_edge(u, n));
    assert(dag2.is_nbr(n, Direction::Incoming, u));
    assert(fail_cause(b[u as int].state));
}

/// the invariant survives any change that creates no new upstream-failed job, keeps causes and dependencies
proof fn lemma_uf_cause_kept(pre: Seq<NodeInfo>, post: Seq<NodeInfo>, dag: &GraphType, dag2: &GraphType)
    requires
        uf_cause_ok(pre, dag), pre.len() <= post.len(), edges_in_range(dag, pre.len()),
        forall|i: int| #![trigger upfailed(post[i].state)] 0 <= i < post.len() && upfailed(post[i].state) ==> i < pre.len() && upfailed(pre[i].state),
        forall|i: int| 0 <= i < pre.len() && fail_cause(pre[i].state) ==> fail_cause(#[trigger] post[i].state),
        (forall|i: int| #![trigger upfailed(pre[i].state)] 0 <= i < pre.len() ==> !upfailed(pre[i].state))
            || (forall|x: usize, y: usize| #![trigger dag.has_edge(x, y)] dag.has_edge(x, y) ==> dag2.has_edge(x, y)),
    ensures uf_cause_ok(post, dag2),
{
    assert forall|i: int| #![trigger upfailed(post[i].state)] 0 <= i < post.len() && upfailed(post[i].state) implies has_failed_up(dag2, post, i as usize) by {
        assert(upfailed(pre[i].state));
        assert(has_failed_up(dag, pre, i as usize));
        reveal(has_failed_up);
        let u = choose|u: usize| #![trigger dag.is_nbr(i as usize, Direction::Incoming, u)] dag.is_nbr(i as usize, Direction::Incoming, u) && fail_cause(pre[u as int].state);
        assert(dag.has_edge(u, i as usize));
        assert(dag2.has_edge(u, i as usize));
        assert(dag2.is_nbr(i as usize, Direction::Incoming, u));
        assert(fail_cause(post[u as int].state));
    }
}

proof fn lemma_uf_of(jobs: Seq<NodeInfo>, dag: &GraphType, i: int)
    requires gates_ok(jobs, dag), 0 <= i < jobs.len(),
    ensures upfailed(jobs[i].state) ==> has_failed_up(dag, jobs, i as usize),
{
}

/// only aborted jobs are marked "aborted before they were started" (finding F7, repaired)
spec fn flags_ok(jobs: Seq<NodeInfo>) -> bool {
    forall|i: int| #![trigger ab_flag(jobs[i])] 0 <= i < jobs.len() && ab_flag(jobs[i]) ==> is_aborted(jobs[i].state)
}

proof fn lemma_flag_of(jobs: Seq<NodeInfo>, dag: &GraphType, i: int)
    requires gates_ok(jobs, dag), 0 <= i < jobs.len(),
    ensures ab_flag(jobs[i]) ==> is_aborted(jobs[i].state),
{
}

proof fn lemma_flags_none(jobs: Seq<NodeInfo>)
    requires forall|i: int| #![trigger ab_flag(jobs[i])] 0 <= i < jobs.len() ==> !ab_flag(jobs[i]),
    ensures flags_ok(jobs),
{
}

/// an Ephemeral job that was skipped without anything to record (C10/C06: the assert in new_history)
spec fn skipped_blank(j: NodeInfo) -> bool {
    j.state == JobState::Ephemeral(JobStateEphemeral::FinishedSkipped) && j.history_output is None
}

/// G4: such a job has only Ephemeral jobs depending on it, directly or indirectly
spec fn blank_skips_ok(jobs: Seq<NodeInfo>, dag: &GraphType) -> bool {
    forall|i: int| #![trigger skipped_blank(jobs[i])] 0 <= i < jobs.len() && skipped_blank(jobs[i]) ==> all_eph_down(dag, jobs, i as usize)
}

proof fn lemma_blank_empty()
    ensures forall|jobs: Seq<NodeInfo>, dag: &GraphType| jobs.len() == 0 ==> #[trigger] blank_skips_ok(jobs, dag),
{
}

proof fn lemma_jobs_step_same_kind(a: Seq<NodeInfo>, b: Seq<NodeInfo>)
    requires a =~= b || jobs_step(a, b),
    ensures forall|i: int| 0 <= i < a.len() ==> same_kind(a[i].state, (#[trigger] b[i]).state),
{
    assert forall|i: int| 0 <= i < a.len() implies same_kind(a[i].state, (#[trigger] b[i]).state) by {
        if !(a =~= b) { assert(lc_le(a[i].state, b[i].state)); }
    }
}

proof fn lemma_blank_none(jobs: Seq<NodeInfo>, dag: &GraphType)
    requires forall|i: int| #![trigger skipped_blank(jobs[i])] 0 <= i < jobs.len() ==> !skipped_blank(jobs[i]),
    ensures blank_skips_ok(jobs, dag),
{
}

/// G4 survives: fewer dependencies, more jobs, same kinds
proof fn lemma_blank_skips_sub(pre: Seq<NodeInfo>, post: Seq<NodeInfo>, dag: &GraphType, dag2: &GraphType)
    requires
        blank_skips_ok(pre, dag), pre.len() <= post.len(), edges_in_range(dag, pre.len()),
        forall|x: usize, y: usize| #![trigger dag2.has_edge(x, y)] dag2.has_edge(x, y) ==> dag.has_edge(x, y),
        forall|i: int| 0 <= i < pre.len() ==> same_kind(pre[i].state, (#[trigger] post[i]).state),
        forall|i: int| #![trigger skipped_blank(post[i])] 0 <= i < post.len() && skipped_blank(post[i]) ==> i < pre.len() && skipped_blank(pre[i]),
    ensures blank_skips_ok(post, dag2),
{
    assert forall|i: int| #![trigger skipped_blank(post[i])] 0 <= i < post.len() && skipped_blank(post[i]) implies all_eph_down(dag2, post, i as usize) by {
        assert(skipped_blank(pre[i]));
        lemma_all_eph_down_sub(dag, dag2, pre, post, i as usize);
    }
}


/// the structural part of the representation invariant (everything but W5)
spec fn core_struct(jobs: Seq<NodeInfo>, m: Map<String, usize>, dag: &GraphType, ready: Set<String>, cleanup: Set<String>, fin: bool) -> bool {
    &&& ids_wf(jobs, m)
    &&& edges_in_range(dag, jobs.len())
    &&& ready_set_wf(jobs, ready, m)
    &&& cleanup_set_wf(jobs, cleanup, m)
    &&& (fin ==> forall|i: int| 0 <= i < jobs.len() ==> finished(#[trigger] jobs[i].state))
    &&& gates_ok(jobs, dag)
}

/// the cascade invariant with job x exempt from W5 (x = -1: nobody)
spec fn core_ok_x(jobs: Seq<NodeInfo>, m: Map<String, usize>, dag: &GraphType, ready: Set<String>, cleanup: Set<String>, fin: bool, x: int) -> bool {
    core_struct(jobs, m, dag, ready, cleanup, fin) && out_wf_x(jobs, x)
}

proof fn lemma_gates_after_write(pre: Seq<NodeInfo>, post: Seq<NodeInfo>, dag: &GraphType, n: int)
    requires
        gates_ok(pre, dag), one_changed(pre, post, n), edges_in_range(dag, pre.len()),
        finished(pre[n].state) ==> finished(post[n].state),
        needs_up(post[n].state) ==> needs_up(pre[n].state) || all_up_done(dag, pre, n as usize),
        cleanup_reached(post[n].state) ==> cleanup_reached(pre[n].state) || all_down_done(dag, pre, n as usize),
        same_kind(pre[n].state, post[n].state),
        skipped_blank(post[n]) ==> skipped_blank(pre[n]) || all_eph_down(dag, pre, n as usize),
        ab_flag(post[n]) ==> is_aborted(post[n].state),
        upfailed(post[n].state) ==> upfailed(pre[n].state) || has_failed_up(dag, pre, n as usize),
        fail_cause(pre[n].state) ==> fail_cause(post[n].state),
    ensures gates_ok(post, dag),
{
    assert(uf_cause_ok(post, dag)) by {
        assert forall|i: int| 0 <= i < pre.len() && fail_cause(pre[i].state) implies fail_cause(#[trigger] post[i].state) by {
            if i != n { assert(post[i].state == pre[i].state); }
        }
        assert forall|i: int| #![trigger upfailed(post[i].state)] 0 <= i < post.len() && upfailed(post[i].state) implies has_failed_up(dag, post, i as usize) by {
            if i != n { assert(post[i].state == pre[i].state); assert(upfailed(pre[i].state)); }
            assert(has_failed_up(dag, pre, i as usize));
            lemma_failed_up_step(dag, dag, pre, post, i as usize);
        }
    }
    assert(flags_ok(post)) by {
        assert forall|i: int| #![trigger ab_flag(post[i])] 0 <= i < post.len() && ab_flag(post[i]) implies is_aborted(post[i].state) by {
            if i != n { assert(post[i].state == pre[i].state && ab_flag(post[i]) == ab_flag(pre[i])); assert(ab_flag(pre[i])); }
        }
    }
    assert(blank_skips_ok(post, dag)) by {
            assert forall|i: int| 0 <= i < pre.len() implies same_kind(pre[i].state, (#[trigger] post[i]).state) by {
            if i != n { assert(post[i].state == pre[i].state); }
        }
        assert forall|i: int| #![trigger skipped_blank(post[i])] 0 <= i < post.len() && skipped_blank(post[i]) implies all_eph_down(dag, post, i as usize) by {
            if i != n { assert(post[i].state == pre[i].state && post[i].history_output == pre[i].history_output); assert(skipped_blank(pre[i])); }
            assert(all_eph_down(dag, pre, i as usize));
            lemma_all_eph_down_sub(dag, dag, pre, post, i as usize);
        }
    }
    assert forall|i: int| 0 <= i < post.len() && needs_up(#[trigger] post[i].state) implies all_up_done(dag, post, i as usize) by {
        assert(all_up_done(dag, pre, i as usize)) by { if i != n { assert(post[i].state == pre[i].state); } }
        assert forall|u: usize| #![trigger dag.is_nbr(i as usize, Direction::Incoming, u)] dag.is_nbr(i as usize, Direction::Incoming, u)
            implies finished(post[u as int].state) by {
            assert(dag.has_edge(u, i as usize));
            assert(finished(pre[u as int].state));
            if u as int != n { assert(post[u as int].state == pre[u as int].state); }
        }
    }
    assert forall|i: int| 0 <= i < post.len() && cleanup_reached(#[trigger] post[i].state) implies all_down_done(dag, post, i as usize) by {
        assert(all_down_done(dag, pre, i as usize)) by { if i != n { assert(post[i].state == pre[i].state); } }
        assert forall|d: usize| #![trigger dag.is_nbr(i as usize, Direction::Outgoing, d)] dag.is_nbr(i as usize, Direction::Outgoing, d)
            implies finished(post[d as int].state) by {
            assert(dag.has_edge(i as usize, d));
            assert(finished(pre[d as int].state));
            if d as int != n { assert(post[d as int].state == pre[d as int].state); }
        }
    }
}

/// gates survive any change that keeps every `finished` verdict and creates no new gated state
proof fn lemma_gates_same_status(pre: Seq<NodeInfo>, post: Seq<NodeInfo>, dag: &GraphType, dag2: &GraphType)
    requires
        gates_ok(pre, dag), pre.len() == post.len(), edges_in_range(dag, pre.len()),
        forall|x: usize, y: usize| #![trigger dag2.has_edge(x, y)] dag2.has_edge(x, y) ==> dag.has_edge(x, y),
        forall|i: int| 0 <= i < pre.len() ==> (finished(pre[i].state) ==> finished(#[trigger] post[i].state)),
        forall|i: int| 0 <= i < pre.len() && needs_up(#[trigger] post[i].state) ==> needs_up(pre[i].state) || all_up_done(dag, pre, i as usize),
        forall|i: int| 0 <= i < pre.len() && cleanup_reached(#[trigger] post[i].state) ==> cleanup_reached(pre[i].state) || all_down_done(dag, pre, i as usize),
        forall|i: int| 0 <= i < pre.len() ==> same_kind(pre[i].state, (#[trigger] post[i]).state),
        forall|i: int| #![trigger skipped_blank(post[i])] 0 <= i < post.len() && skipped_blank(post[i]) ==> skipped_blank(pre[i]),
        forall|i: int| #![trigger ab_flag(post[i])] 0 <= i < post.len() && ab_flag(post[i]) ==> ab_flag(pre[i]) && post[i].state == pre[i].state,
        forall|i: int| #![trigger upfailed(post[i].state)] 0 <= i < post.len() && upfailed(post[i].state) ==> upfailed(pre[i].state),
        forall|i: int| 0 <= i < pre.len() && fail_cause(pre[i].state) ==> fail_cause(#[trigger] post[i].state),
        (forall|i: int| #![trigger upfailed(pre[i].state)] 0 <= i < pre.len() ==> !upfailed(pre[i].state))
            || (forall|x: usize, y: usize| #![trigger dag.has_edge(x, y)] dag.has_edge(x, y) ==> dag2.has_edge(x, y)),
    ensures gates_ok(post, dag2),
{
    lemma_uf_cause_kept(pre, post, dag, dag2);
    assert(flags_ok(post)) by {
        assert forall|i: int| #![trigger ab_flag(post[i])] 0 <= i < post.len() && ab_flag(post[i]) implies is_aborted(post[i].state) by {
            assert(ab_flag(pre[i]));
        }
    }
    lemma_blank_skips_sub(pre, post, dag, dag2);
    assert forall|i: int| 0 <= i < post.len() && needs_up(#[trigger] post[i].state) implies all_up_done(dag2, post, i as usize) by {
        assert(all_up_done(dag, pre, i as usize));
        assert forall|u: usize| #![trigger dag2.is_nbr(i as usize, Direction::Incoming, u)] dag2.is_nbr(i as usize, Direction::Incoming, u)
            implies finished(post[u as int].state) by {
            assert(dag2.has_edge(u, i as usize));
            assert(dag.has_edge(u, i as usize));
            assert(dag.is_nbr(i as usize, Direction::Incoming, u));
            assert(finished(pre[u as int].state));
        }
    }
    assert forall|i: int| 0 <= i < post.len() && cleanup_reached(#[trigger] post[i].state) implies all_down_done(dag2, post, i as usize) by {
        assert(all_down_done(dag, pre, i as usize));
        assert forall|d: usize| #![trigger dag2.is_nbr(i as usize, Direction::Outgoing, d)] dag2.is_nbr(i as usize, Direction::Outgoing, d)
            implies finished(post[d as int].state) by {
            assert(dag2.has_edge(i as usize, d));
            assert(dag.has_edge(i as usize, d));
            assert(dag.is_nbr(i as usize, Direction::Outgoing, d));
            assert(finished(pre[d as int].state));
        }
    }
}

proof fn lemma_core_x(jobs: Seq<NodeInfo>, m: Map<String, usize>, dag: &GraphType, ready: Set<String>, cleanup: Set<String>, fin: bool, x: int)
    ensures
        core_ok(jobs, m, dag, ready, cleanup, fin) ==> core_ok_x(jobs, m, dag, ready, cleanup, fin, x),
        core_ok_x(jobs, m, dag, ready, cleanup, fin, x) && (x < 0 || x >= jobs.len() || out_wf_one(jobs[x])) ==> core_ok(jobs, m, dag, ready, cleanup, fin),
{
    if core_ok(jobs, m, dag, ready, cleanup, fin) {
        assert forall|i: int| 0 <= i < jobs.len() && i != x implies out_wf_one(#[trigger] jobs[i]) by {}
    }
    if core_ok_x(jobs, m, dag, ready, cleanup, fin, x) && (x < 0 || x >= jobs.len() || out_wf_one(jobs[x])) {
        assert forall|i: int| 0 <= i < jobs.len() implies out_wf_one(#[trigger] jobs[i]) by {}
    }
}

/// the job exempt from W5 while the signal at position `si` of the drained queue is pending: only the
/// very first signal of a cascade may be a "finished successfully" report
spec fn cur_x(sigs: Seq<Signal>, si: int) -> int {
    if si == 0 && sigs.len() > 0 && sigs[0].kind == SignalKind::JobFinishedSuccess { sigs[0].node_idx as int } else { -1 }
}

spec fn dag_dom_same(a: &GraphType, b: &GraphType) -> bool {
    a.nodes_set() == b.nodes_set() && a.edges().dom() =~= b.edges().dom()
}

proof fn lemma_dag_dom_range(a: &GraphType, b: &GraphType, n: nat)
    requires dag_dom_same(a, b), edges_in_range(a, n),
    ensures edges_in_range(b, n), a.acyclic() == b.acyclic(),
        forall|x: usize, y: usize| #![trigger b.has_edge(x, y)] b.has_edge(x, y) == a.has_edge(x, y),
        forall|x: usize, d: Direction, y: usize| #![trigger b.is_nbr(x, d, y)] b.is_nbr(x, d, y) == a.is_nbr(x, d, y),
{
    assert forall|x: usize, y: usize| #![trigger b.has_edge(x, y)] b.has_edge(x, y) == a.has_edge(x, y) by {
        assert(b.edges().dom().contains((x, y)) == a.edges().dom().contains((x, y)));
    }
    axiom_rank_dom(a, b);
}

pub broadcast proof fn lemma_map_insert_existing_dom<K, V>(m: Map<K, V>, k: K, v: V)
    requires m.contains_key(k),
    ensures #[trigger] m.insert(k, v).dom() == m.dom(),
{
    assert(m.insert(k, v).dom() =~= m.dom());
}

// ---------------------------------------------------------------- "only Ephemeral jobs depend on it" (C03/C04/C07 exemption, C06 assert sites)
/// every member is Ephemeral and every direct downstream of a member is a member
spec fn eph_closed_set(dag: &GraphType, jobs: Seq<NodeInfo>, s: Set<usize>) -> bool {
    &&& forall|v: usize| #![trigger s.contains(v)] s.contains(v) ==> jobs[v as int].state is Ephemeral
    &&& forall|v: usize, d: usize| #![trigger s.contains(v), dag.has_edge(v, d)] s.contains(v) && dag.has_edge(v, d) ==> s.contains(d)
}

/// `n` and everything that depends on it, directly or indirectly, is Ephemeral
spec fn all_eph_down(dag: &GraphType, jobs: Seq<NodeInfo>, n: usize) -> bool {
    exists|s: Set<usize>| #![trigger s.contains(n)] s.contains(n) && eph_closed_set(dag, jobs, s)
}

proof fn lemma_eph_closed_member(dag: &GraphType, jobs: Seq<NodeInfo>, s: Set<usize>, v: usize, d: usize)
    requires eph_closed_set(dag, jobs, s), s.contains(v),
    ensures jobs[v as int].state is Ephemeral, dag.has_edge(v, d) ==> s.contains(d),
{
}

proof fn lemma_eph_closed_union(dag: &GraphType, jobs: Seq<NodeInfo>, s1: Set<usize>, s2: Set<usize>)
    requires eph_closed_set(dag, jobs, s1), eph_closed_set(dag, jobs, s2),
    ensures eph_closed_set(dag, jobs, s1.union(s2)),
{
    assert forall|v: usize, d: usize| #![trigger s1.union(s2).contains(v), dag.has_edge(v, d)]
        s1.union(s2).contains(v) && dag.has_edge(v, d) implies s1.union(s2).contains(d) by {
        if s1.contains(v) { lemma_eph_closed_member(dag, jobs, s1, v, d); } else { lemma_eph_closed_member(dag, jobs, s2, v, d); }
    }
}

/// the closure depends only on the kinds of the jobs and on which dependencies exist
proof fn lemma_all_eph_down_stable(d0: &GraphType, d1: &GraphType, j0: Seq<NodeInfo>, j1: Seq<NodeInfo>, n: usize)
    requires dag_dom_same(d0, d1), j0.len() == j1.len(),
        forall|i: int| 0 <= i < j0.len() ==> same_kind(j0[i].state, (#[trigger] j1[i]).state),
        edges_in_range(d0, j0.len()), n < j0.len(),
    ensures all_eph_down(d0, j0, n) == all_eph_down(d1, j1, n),
{
    lemma_dag_dom_range(d0, d1, j0.len());
    lemma_dag_dom_range(d1, d0, j0.len());
    if all_eph_down(d0, j0, n) {
        let s = choose|s: Set<usize>| #![trigger s.contains(n)] s.contains(n) && eph_closed_set(d0, j0, s);
        lemma_eph_closed_transfer(d0, d1, j0, j1, s, n);
    }
    if all_eph_down(d1, j1, n) {
        let s = choose|s: Set<usize>| #![trigger s.contains(n)] s.contains(n) && eph_closed_set(d1, j1, s);
        assert forall|i: int| 0 <= i < j1.len() implies same_kind(j1[i].state, (#[trigger] j0[i]).state) by {
            assert(same_kind(j0[i].state, j1[i].state));
        }
        lemma_eph_closed_transfer(d1, d0, j1, j0, s, n);
    }
}

/// a closed set of Ephemeral jobs stays one when dependencies are removed, jobs are added, kinds are kept
proof fn lemma_all_eph_down_sub(d0: &GraphType, d1: &GraphType, j0: Seq<NodeInfo>, j1: Seq<NodeInfo>, n: usize)
    requires
        forall|x: usize, y: usize| #![trigger d1.has_edge(x, y)] d1.has_edge(x, y) ==> d0.has_edge(x, y),
        j0.len() <= j1.len(), forall|i: int| 0 <= i < j0.len() ==> same_kind(j0[i].state, (#[trigger] j1[i]).state),
        edges_in_range(d0, j0.len()), n < j0.len(), all_eph_down(d0, j0, n),
    ensures all_eph_down(d1, j1, n),
{
    let s = choose|s: Set<usize>| #![trigger s.contains(n)] s.contains(n) && eph_closed_set(d0, j0, s);
    let s2 = s.filter(|v: usize| v < j0.len());
    assert forall|v: usize| #![trigger s2.contains(v)] s2.contains(v) implies j1[v as int].state is Ephemeral by {
        assert(s.contains(v) && v < j0.len());
        assert(same_kind(j0[v as int].state, j1[v as int].state));
    }
    assert forall|v: usize, d: usize| #![trigger s2.contains(v), d1.has_edge(v, d)] s2.contains(v) && d1.has_edge(v, d) implies s2.contains(d) by {
        assert(s.contains(v) && v < j0.len());
        assert(d0.has_edge(v, d));
        lemma_eph_closed_member(d0, j0, s, v, d);
    }
    assert(s2.contains(n) && eph_closed_set(d1, j1, s2));
}

/// an Ephemeral job nothing depends on
proof fn lemma_no_down_all_eph(dag: &GraphType, jobs: Seq<NodeInfo>, n: usize)
    requires jobs[n as int].state is Ephemeral, !has_down(dag, n),
    ensures all_eph_down(dag, jobs, n),
{
    let s = set![n];
    assert forall|v: usize, d: usize| #![trigger s.contains(v), dag.has_edge(v, d)] s.contains(v) && dag.has_edge(v, d) implies s.contains(d) by {
        assert(dag.is_nbr(n, Direction::Outgoing, d));
    }
    assert(s.contains(n) && eph_closed_set(dag, jobs, s));
}

proof fn lemma_eph_closed_transfer(d0: &GraphType, d1: &GraphType, j0: Seq<NodeInfo>, j1: Seq<NodeInfo>, s: Set<usize>, n: usize)
    requires dag_dom_same(d0, d1), j0.len() == j1.len(),
        forall|i: int| 0 <= i < j0.len() ==> same_kind(j0[i].state, (#[trigger] j1[i]).state),
        edges_in_range(d0, j0.len()), n < j0.len(), s.contains(n), eph_closed_set(d0, j0, s),
    ensures all_eph_down(d1, j1, n),
{
    lemma_dag_dom_range(d0, d1, j0.len());
    // members reachable from n are in range; restrict the witness to job indices
    let s2 = s.filter(|v: usize| v < j0.len());
    assert forall|v: usize| #![trigger s2.contains(v)] s2.contains(v) implies j1[v as int].state is Ephemeral by {
        assert(s.contains(v) && v < j0.len());
        assert(same_kind(j0[v as int].state, j1[v as int].state));
    }
    assert forall|v: usize, d: usize| #![trigger s2.contains(v), d1.has_edge(v, d)] s2.contains(v) && d1.has_edge(v, d) implies s2.contains(d) by {
        assert(s.contains(v) && v < j0.len());
        assert(d0.has_edge(v, d));
        lemma_eph_closed_member(d0, j0, s, v, d);
    }
    assert(s2.contains(n) && eph_closed_set(d1, j1, s2));
}

// ---------------------------------------------------------------- "can no longer be required" (C02: finding F8, repaired)
/// a job that has been judged and will not ask its upstream Ephemerals to run
spec fn settled_down(s: JobState) -> bool {
    s == JobState::Output(JobStateOutput::NotReady(ValidationStatus::Validated))
        || s == JobState::Output(JobStateOutput::FinishedSkipped)
        || s == JobState::Output(JobStateOutput::FinishedUpstreamFailure)
        || s == JobState::Ephemeral(JobStateEphemeral::FinishedUpstreamFailure)
}

spec fn waiting_val_eph(s: JobState) -> bool {
    s == JobState::Ephemeral(JobStateEphemeral::NotReady(ValidationStatus::Validated))
}

/// every dependency out of `n` is marked "not required" and leads to a settled job or into `s`
spec fn unreq_node(dag: &GraphType, jobs: Seq<NodeInfo>, n: usize, s: Set<usize>) -> bool {
    forall|d: usize| #![trigger dag.is_nbr(n, Direction::Outgoing, d)] dag.is_nbr(n, Direction::Outgoing, d) ==>
        dag.edges()[(n, d)].required == Required::No && (settled_down(jobs[d as int].state) || s.contains(d))
}

/// `s`: validated Ephemerals still waiting for their upstreams, none of which can be required any more - not by a
/// direct consumer and not through another member
spec fn unreq_closed(dag: &GraphType, jobs: Seq<NodeInfo>, s: Set<usize>) -> bool {
    &&& forall|v: usize| #![trigger s.contains(v)] s.contains(v) ==> waiting_val_eph(jobs[v as int].state)
    &&& forall|v: usize| #![trigger s.contains(v)] s.contains(v) ==> unreq_node(dag, jobs, v, s)
}

/// the direct consumers of `n` are settled or members of `s` (whatever the flags on n's own dependencies say)
spec fn down_settled(dag: &GraphType, jobs: Seq<NodeInfo>, n: usize, s: Set<usize>) -> bool {
    forall|d: usize| #![trigger dag.is_nbr(n, Direction::Outgoing, d)] dag.is_nbr(n, Direction::Outgoing, d) ==>
        settled_down(jobs[d as int].state) || s.contains(d)
}

proof fn lemma_unreq_node_mono(dag: &GraphType, jobs: Seq<NodeInfo>, n: usize, s1: Set<usize>, s2: Set<usize>)
    requires unreq_node(dag, jobs, n, s1), forall|x: usize| s1.contains(x) ==> s2.contains(x),
    ensures unreq_node(dag, jobs, n, s2),
{
}

proof fn lemma_unreq_closed_union(dag: &GraphType, jobs: Seq<NodeInfo>, s1: Set<usize>, s2: Set<usize>)
    requires unreq_closed(dag, jobs, s1), unreq_closed(dag, jobs, s2),
    ensures unreq_closed(dag, jobs, s1.union(s2)),
{
    let u = s1.union(s2);
    assert forall|v: usize| #![trigger u.contains(v)] u.contains(v) implies unreq_node(dag, jobs, v, u) by {
        if s1.contains(v) { assert(unreq_node(dag, jobs, v, s1)); lemma_unreq_node_mono(dag, jobs, v, s1, u); }
        else { assert(s2.contains(v)); assert(unreq_node(dag, jobs, v, s2)); lemma_unreq_node_mono(dag, jobs, v, s2, u); }
    }
    assert forall|v: usize| #![trigger u.contains(v)] u.contains(v) implies waiting_val_eph(jobs[v as int].state) by {
        if s1.contains(v) { } else { assert(s2.contains(v)); }
    }
}

/// adding a waiting validated Ephemeral whose own dependencies are all accounted for
proof fn lemma_unreq_closed_insert(dag: &GraphType, jobs: Seq<NodeInfo>, s: Set<usize>, d: usize)
    requires unreq_closed(dag, jobs, s), waiting_val_eph(jobs[d as int].state), unreq_node(dag, jobs, d, s),
    ensures unreq_closed(dag, jobs, s.insert(d)),
{
    let u = s.insert(d);
    assert forall|v: usize| #![trigger u.contains(v)] u.contains(v) implies unreq_node(dag, jobs, v, u) by {
        if v == d { lemma_unreq_node_mono(dag, jobs, v, s, u); }
        else { assert(s.contains(v)); assert(unreq_node(dag, jobs, v, s)); lemma_unreq_node_mono(dag, jobs, v, s, u); }
    }
    assert forall|v: usize| #![trigger u.contains(v)] u.contains(v) implies waiting_val_eph(jobs[v as int].state) by {
        if v != d { assert(s.contains(v)); }
    }
}

// ---------------------------------------------------------------- rename matcher (C04/C03: try_finding_renamed_multi_output_job)
/// history key `key` records what `down` consumed from some upstream
spec fn rn_candidate(key: Seq<char>, down: Seq<char>) -> bool {
    str_ends_with(key, key_suffix(down))
}

/// the upstream id such a key names
spec fn rn_cand_id(key: Seq<char>) -> Seq<char> {
    str_split_once(key, SEP()).unwrap().0
}

spec fn rn_some(o: Option<String>) -> bool { o is Some }
spec fn rn_id(o: Option<String>) -> Seq<char> { o.unwrap()@ }

/// how many outputs the historical upstream `c` shares with the upstream that is now missing
spec fn rn_overlap(c: Seq<char>, missing: Seq<char>) -> nat {
    parts_strings(c).intersect(parts_strings(missing)).len()
}

// ---------------------------------------------------------------- wake-ups (C05: no decision is lost)
// The predicates are opaque: callers of the helpers carry them around without the quantifiers inside.
/// job `u` will be looked at again: a signal for it is queued, or it was already considered in this generation
#[verifier::opaque]
spec fn woken(sigs: Seq<Signal>, jobs: Seq<NodeInfo>, u: usize, gen: usize) -> bool {
    (exists|k: int| 0 <= k < sigs.len() && (#[trigger] sigs[k]).node_idx == u) || jobs[u as int].last_considered_in_gen >= gen
}

#[verifier::opaque]
spec fn gen_mono(a: Seq<NodeInfo>, b: Seq<NodeInfo>) -> bool {
    a.len() == b.len() && forall|i: int| 0 <= i < a.len() ==> (#[trigger] b[i]).last_considered_in_gen >= a[i].last_considered_in_gen
}

spec fn is_parked_eph(s: JobState) -> bool {
    s == JobState::Ephemeral(JobStateEphemeral::ReadyButDelayed) || s == JobState::Ephemeral(JobStateEphemeral::NotReady(ValidationStatus::Validated))
}

spec fn is_delayed_eph(s: JobState) -> bool {
    s == JobState::Ephemeral(JobStateEphemeral::ReadyButDelayed)
}

/// every Ephemeral direct upstream of `n` that is parked (validated, waiting to learn whether it is needed) will be considered again
#[verifier::opaque]
spec fn parked_ups_woken(dag: &GraphType, j0: Seq<NodeInfo>, sigs: Seq<Signal>, jobs: Seq<NodeInfo>, n: usize, gen: usize) -> bool {
    forall|u: usize| #![trigger dag.is_nbr(n, Direction::Incoming, u)] dag.is_nbr(n, Direction::Incoming, u) && is_parked_eph(j0[u as int].state)
        ==> woken(sigs, jobs, u, gen)
}

/// every delayed Ephemeral direct upstream of `n` will be considered again
#[verifier::opaque]
spec fn delayed_ups_woken(dag: &GraphType, j0: Seq<NodeInfo>, sigs: Seq<Signal>, jobs: Seq<NodeInfo>, n: usize, gen: usize) -> bool {
    forall|u: usize| #![trigger dag.is_nbr(n, Direction::Incoming, u)] dag.is_nbr(n, Direction::Incoming, u) && is_delayed_eph(j0[u as int].state)
        ==> woken(sigs, jobs, u, gen)
}

/// every direct downstream of `n` will be considered again
#[verifier::opaque]
spec fn downs_woken(dag: &GraphType, sigs: Seq<Signal>, jobs: Seq<NodeInfo>, n: usize, gen: usize) -> bool {
    forall|d: usize| #![trigger dag.is_nbr(n, Direction::Outgoing, d)] dag.is_nbr(n, Direction::Outgoing, d) ==> woken(sigs, jobs, d, gen)
}

proof fn lemma_woken_stable(s0: Seq<Signal>, s1: Seq<Signal>, j0: Seq<NodeInfo>, j1: Seq<NodeInfo>, u: usize, gen: usize, n: nat)
    requires woken(s0, j0, u, gen), sig_ext_consider(s0, s1, n), gen_mono(j0, j1), u < j0.len(),
    ensures woken(s1, j1, u, gen),
{
    reveal(woken);
    reveal(gen_mono);
    if exists|k: int| 0 <= k < s0.len() && (#[trigger] s0[k]).node_idx == u {
        let k = choose|k: int| 0 <= k < s0.len() && (#[trigger] s0[k]).node_idx == u;
        assert(s1[k] == s0[k]);
    }
}

proof fn lemma_gen_mono_refl(a: Seq<NodeInfo>)
    ensures gen_mono(a, a),
{
    reveal(gen_mono);
}

proof fn lemma_gen_mono_trans(a: Seq<NodeInfo>, b: Seq<NodeInfo>, c: Seq<NodeInfo>)
    requires gen_mono(a, b), gen_mono(b, c),
    ensures gen_mono(a, c),
{
    reveal(gen_mono);
    assert forall|i: int| 0 <= i < a.len() implies (#[trigger] c[i]).last_considered_in_gen >= a[i].last_considered_in_gen by {
        assert(b[i].last_considered_in_gen >= a[i].last_considered_in_gen);
    }
}

// ---------------------------------------------------------------- requirement propagation (C02, C04)
/// the dependency a -> b is marked "the consumer needs its upstream to run"
spec fn req_yes(dag: &GraphType, a: usize, b: usize) -> bool {
    dag.edges()[(a, b)].required == Required::Yes
}

/// `s` is closed under "is consumed by a member through Ephemeral jobs": every dependency into a member
/// is marked required, and every Ephemeral job at the source of such a dependency is a member too
spec fn req_closed(dag: &GraphType, jobs: Seq<NodeInfo>, s: Set<usize>) -> bool {
    forall|u: usize, v: usize| #![trigger dag.has_edge(u, v), s.contains(v)]
        s.contains(v) && dag.has_edge(u, v) ==> req_yes(dag, u, v) && (jobs[u as int].state is Ephemeral ==> s.contains(u))
}

/// between two graphs only `required` flags changed, and only to Yes
spec fn req_only_raised(d0: &GraphType, d1: &GraphType) -> bool {
    forall|x: usize, y: usize| #![trigger d1.edges()[(x, y)]] d0.has_edge(x, y) ==>
        d1.edges()[(x, y)].invalidated == d0.edges()[(x, y)].invalidated
        && (d1.edges()[(x, y)].required == d0.edges()[(x, y)].required || d1.edges()[(x, y)].required == Required::Yes)
}

/// flags changed only on dependencies whose consumer is `n` or an Ephemeral job
spec fn req_changed_only_into(d0: &GraphType, d1: &GraphType, jobs: Seq<NodeInfo>, n: usize) -> bool {
    forall|x: usize, y: usize| #![trigger d1.edges()[(x, y)]] d0.has_edge(x, y) && d1.edges()[(x, y)].required != d0.edges()[(x, y)].required
        ==> y == n || jobs[y as int].state is Ephemeral
}

proof fn lemma_req_closed_mono(d0: &GraphType, d1: &GraphType, jobs: Seq<NodeInfo>, s: Set<usize>)
    requires dag_dom_same(d0, d1), req_only_raised(d0, d1), req_closed(d0, jobs, s),
    ensures req_closed(d1, jobs, s),
{
    assert forall|u: usize, v: usize| #![trigger d1.has_edge(u, v), s.contains(v)]
        s.contains(v) && d1.has_edge(u, v) implies req_yes(d1, u, v) && (jobs[u as int].state is Ephemeral ==> s.contains(u)) by {
        assert(d1.edges().dom().contains((u, v)) == d0.edges().dom().contains((u, v)));
        assert(d0.has_edge(u, v));
        let _ = d1.edges()[(u, v)];
    }
}

proof fn lemma_req_closed_union(d: &GraphType, jobs: Seq<NodeInfo>, s1: Set<usize>, s2: Set<usize>)
    requires req_closed(d, jobs, s1), req_closed(d, jobs, s2),
    ensures req_closed(d, jobs, s1.union(s2)),
{
    assert forall|u: usize, v: usize| #![trigger d.has_edge(u, v), s1.union(s2).contains(v)]
        s1.union(s2).contains(v) && d.has_edge(u, v) implies req_yes(d, u, v) && (jobs[u as int].state is Ephemeral ==> s1.union(s2).contains(u)) by {
        if s1.contains(v) { assert(d.has_edge(u, v) && s1.contains(v)); } else { assert(d.has_edge(u, v) && s2.contains(v)); }
    }
}

proof fn lemma_req_only_raised_trans(d0: &GraphType, d1: &GraphType, d2: &GraphType)
    requires dag_dom_same(d0, d1), dag_dom_same(d1, d2), req_only_raised(d0, d1), req_only_raised(d1, d2),
    ensures req_only_raised(d0, d2), dag_dom_same(d0, d2),
{
    assert forall|x: usize, y: usize| #![trigger d2.edges()[(x, y)]] d0.has_edge(x, y) implies
        d2.edges()[(x, y)].invalidated == d0.edges()[(x, y)].invalidated
        && (d2.edges()[(x, y)].required == d0.edges()[(x, y)].required || d2.edges()[(x, y)].required == Required::Yes) by {
        assert(d1.edges().dom().contains((x, y)) == d0.edges().dom().contains((x, y)));
        assert(d1.has_edge(x, y));
        let _ = d1.edges()[(x, y)];
    }
}

proof fn lemma_req_changed_trans(d0: &GraphType, d1: &GraphType, d2: &GraphType, jobs: Seq<NodeInfo>, n: usize, m: usize)
    requires dag_dom_same(d0, d1), dag_dom_same(d1, d2), req_changed_only_into(d0, d1, jobs, n), req_changed_only_into(d1, d2, jobs, m),
        m == n || jobs[m as int].state is Ephemeral,
    ensures req_changed_only_into(d0, d2, jobs, n),
{
    assert forall|x: usize, y: usize| #![trigger d2.edges()[(x, y)]] d0.has_edge(x, y) && d2.edges()[(x, y)].required != d0.edges()[(x, y)].required
        implies y == n || jobs[y as int].state is Ephemeral by {
        assert(d1.edges().dom().contains((x, y)) == d0.edges().dom().contains((x, y)));
        assert(d1.has_edge(x, y));
        let _ = d1.edges()[(x, y)];
    }
}

/// one state write (a set_node_state! expansion and the bookkeeping that goes with it)
proof fn lemma_write_ok(pre: Seq<NodeInfo>, post: Seq<NodeInfo>, m: Map<String, usize>, dag: &GraphType,
    r0: Set<String>, r1: Set<String>, c0: Set<String>, c1: Set<String>, fin: bool, n: int)
    requires
        core_ok_x(pre, m, dag, r0, c0, fin, n), one_changed(pre, post, n),
        lc_le(pre[n].state, post[n].state), out_wf_one(post[n]),
        needs_up(post[n].state) ==> needs_up(pre[n].state) || all_up_done(dag, pre, n as usize),
        cleanup_reached(post[n].state) ==> cleanup_reached(pre[n].state) || all_down_done(dag, pre, n as usize),
        skipped_blank(post[n]) ==> skipped_blank(pre[n]) || all_eph_down(dag, pre, n as usize),
        ab_flag(post[n]) ==> is_aborted(post[n].state),
        upfailed(post[n].state) ==> upfailed(pre[n].state) || has_failed_up(dag, pre, n as usize),
        pre[n].history_output is Some ==> post[n].history_output == pre[n].history_output,
        is_ready(pre[n].state) == is_ready(post[n].state) ==> r1 =~= r0,
        is_ready(pre[n].state) && !is_ready(post[n].state) ==> r1 =~= r0.remove(pre[n].job_id),
        !is_ready(pre[n].state) && is_ready(post[n].state) ==> r1 =~= r0.insert(pre[n].job_id),
        is_rfc(pre[n].state) == is_rfc(post[n].state) ==> c1 =~= c0,
        is_rfc(pre[n].state) && !is_rfc(post[n].state) ==> c1 =~= c0.remove(pre[n].job_id),
        !is_rfc(pre[n].state) && is_rfc(post[n].state) ==> c1 =~= c0.insert(pre[n].job_id),
    ensures core_ok(post, m, dag, r1, c1, fin), jobs_step(pre, post),
{
    lemma_ids_after_write(pre, post, m, n);
    lemma_ready_set_after_write(pre, post, m, r0, r1, n);
    lemma_cleanup_set_after_write(pre, post, m, c0, c1, n);
    lemma_out_after_write(pre, post, n);
    lemma_step_after_write(pre, post, n);
    lemma_lc_consequences(pre[n].state, post[n].state);
    lemma_gates_after_write(pre, post, dag, n);
    if fin { lemma_all_finished_after_write(pre, post, n); }
}

/// a pre-offer move into the "ready but delayed" state happens only with all upstreams finished (G1)
spec fn soft_gate(pre: Seq<NodeInfo>, post: Seq<NodeInfo>, dag: &GraphType) -> bool {
    forall|i: int| 0 <= i < pre.len() && needs_up(#[trigger] post[i].state) && !needs_up(pre[i].state) ==> all_up_done(dag, pre, i as usize)
}

/// helper calls that only move pre-offer states
proof fn lemma_soft_ok(pre: Seq<NodeInfo>, post: Seq<NodeInfo>, m: Map<String, usize>, dag: &GraphType,
    r0: Set<String>, c0: Set<String>, fin: bool)
    requires core_ok(pre, m, dag, r0, c0, fin), jobs_soft(pre, post), soft_gate(pre, post, dag),
    ensures core_ok(post, m, dag, r0, c0, fin), jobs_step(pre, post),
{
    assert forall|i: int| 0 <= i < pre.len() implies (finished(pre[i].state) ==> finished(#[trigger] post[i].state)) by {
        assert(post[i].job_id == pre[i].job_id);
    }
    assert forall|i: int| 0 <= i < pre.len() && cleanup_reached(#[trigger] post[i].state) implies cleanup_reached(pre[i].state) by {
        assert(post[i].job_id == pre[i].job_id);
    }
    assert forall|i: int| #![trigger upfailed(post[i].state)] 0 <= i < post.len() && upfailed(post[i].state) implies upfailed(pre[i].state) by {
        assert(post[i].job_id == pre[i].job_id);
    }
    assert forall|i: int| 0 <= i < pre.len() && fail_cause(pre[i].state) implies fail_cause(#[trigger] post[i].state) by {
        assert(post[i].job_id == pre[i].job_id);
    }
    lemma_gates_same_status(pre, post, dag, dag);
    assert forall|i: int| 0 <= i < post.len() implies #[trigger] m.contains_key(post[i].job_id)
            && m[post[i].job_id] == i && valid_id(post[i].job_id@) by {
        assert(post[i].job_id == pre[i].job_id);
        assert(m.contains_key(pre[i].job_id));
    }
    assert forall|k: String| #[trigger] m.contains_key(k) implies m[k] < post.len() && post[m[k] as int].job_id == k by {
        let i = m[k] as int;
        assert(pre[i].job_id == k);
        assert(post[i].job_id == pre[i].job_id);
    }
    assert forall|i: int| 0 <= i < post.len() implies (is_ready(#[trigger] post[i].state) <==> r0.contains(post[i].job_id)) by {
        assert(post[i].job_id == pre[i].job_id);
        assert(is_ready(pre[i].state) <==> r0.contains(pre[i].job_id));
    }
    assert forall|i: int| 0 <= i < post.len() implies (is_rfc(#[trigger] post[i].state) <==> c0.contains(post[i].job_id)) by {
        assert(post[i].job_id == pre[i].job_id);
        assert(is_rfc(pre[i].state) <==> c0.contains(pre[i].job_id));
    }
    assert forall|i: int| 0 <= i < post.len() implies out_wf_one(#[trigger] post[i]) by {
        assert(post[i].history_output == pre[i].history_output);
        assert(out_wf_one(pre[i]));
    }
    if fin {
        assert forall|i: int| 0 <= i < post.len() implies finished(#[trigger] post[i].state) by {
            assert(post[i].job_id == pre[i].job_id);
            assert(finished(pre[i].state));
        }
    }
    assert forall|i: int| 0 <= i < pre.len() implies lc_le(pre[i].state, (#[trigger] post[i]).state) by {
        assert(post[i].job_id == pre[i].job_id);
    }
    assert forall|i: int| 0 <= i < pre.len() implies (#[trigger] post[i]).job_id == pre[i].job_id by {}
    assert forall|i: int| 0 <= i < pre.len() implies (pre[i].history_output is Some ==> (#[trigger] post[i]).history_output == pre[i].history_output) by {
        assert(post[i].job_id == pre[i].job_id);
    }
}

proof fn lemma_touch_is_soft(pre: Seq<NodeInfo>, post: Seq<NodeInfo>)
    requires jobs_touch(pre, post),
    ensures jobs_soft(pre, post),
{
    assert forall|i: int| 0 <= i < pre.len() implies (#[trigger] post[i]).job_id == pre[i].job_id && post[i].history_output == pre[i].history_output
            && (post[i].state == pre[i].state || (pre_offer(pre[i].state) && pre_offer(post[i].state) && same_kind(pre[i].state, post[i].state))) by {}
}

proof fn lemma_soft_trans(a: Seq<NodeInfo>, b: Seq<NodeInfo>, c: Seq<NodeInfo>)
    requires jobs_soft(a, b), jobs_soft(b, c),
    ensures jobs_soft(a, c),
{
    reveal(pre_le);
    assert forall|i: int| 0 <= i < a.len() implies (#[trigger] c[i]).job_id == a[i].job_id && c[i].history_output == a[i].history_output
            && (c[i].state == a[i].state || (pre_offer(a[i].state) && pre_offer(c[i].state) && same_kind(a[i].state, c[i].state)
                && pre_le(a[i].state, c[i].state))) by {
        assert(b[i].job_id == a[i].job_id);
    }
}

/// the cleanup decision of JobDone
proof fn lemma_cleanup_ok(pre: Seq<NodeInfo>, post: Seq<NodeInfo>, m: Map<String, usize>, dag: &GraphType,
    r0: Set<String>, c0: Set<String>, c1: Set<String>, fin: bool)
    requires
        core_ok(pre, m, dag, r0, c0, fin), cleanup_frame(pre, post),
        forall|i: int| 0 <= i < post.len() ==> (is_rfc(#[trigger] post[i].state) <==> c1.contains(post[i].job_id)),
        forall|k: String| #[trigger] c1.contains(k) ==> c0.contains(k) || exists|i: int| 0 <= i < pre.len() && #[trigger] pre[i].job_id == k,
        forall|i: int| 0 <= i < pre.len() && is_rfc(#[trigger] post[i].state) && !is_rfc(pre[i].state) ==> all_down_done(dag, pre, i as usize),
    ensures core_ok(post, m, dag, r0, c1, fin), jobs_step(pre, post),
{
    assert forall|i: int| 0 <= i < pre.len() implies (finished(pre[i].state) ==> finished(#[trigger] post[i].state)) by {
        assert(post[i].job_id == pre[i].job_id);
    }
    assert forall|i: int| 0 <= i < pre.len() && needs_up(#[trigger] post[i].state) implies needs_up(pre[i].state) by {
        assert(post[i].job_id == pre[i].job_id);
    }
    assert forall|i: int| 0 <= i < pre.len() && cleanup_reached(#[trigger] post[i].state) implies cleanup_reached(pre[i].state) || all_down_done(dag, pre, i as usize) by {
        assert(post[i].job_id == pre[i].job_id);
    }
    assert forall|i: int| #![trigger upfailed(post[i].state)] 0 <= i < post.len() && upfailed(post[i].state) implies upfailed(pre[i].state) by {
        assert(post[i].job_id == pre[i].job_id);
    }
    assert forall|i: int| 0 <= i < pre.len() && fail_cause(pre[i].state) implies fail_cause(#[trigger] post[i].state) by {
        assert(post[i].job_id == pre[i].job_id);
    }
    lemma_gates_same_status(pre, post, dag, dag);
    assert forall|i: int| 0 <= i < post.len() implies #[trigger] m.contains_key(post[i].job_id)
            && m[post[i].job_id] == i && valid_id(post[i].job_id@) by {
        assert(post[i].job_id == pre[i].job_id);
        assert(m.contains_key(pre[i].job_id));
    }
    assert forall|k: String| #[trigger] m.contains_key(k) implies m[k] < post.len() && post[m[k] as int].job_id == k by {
        let i = m[k] as int;
        assert(pre[i].job_id == k);
        assert(post[i].job_id == pre[i].job_id);
    }
    assert forall|i: int| 0 <= i < post.len() implies (is_ready(#[trigger] post[i].state) <==> r0.contains(post[i].job_id)) by {
        assert(post[i].job_id == pre[i].job_id);
        assert(is_ready(pre[i].state) <==> r0.contains(pre[i].job_id));
    }
    assert forall|k: String| #[trigger] c1.contains(k) implies m.contains_key(k) by {
        if !c0.contains(k) {
            let i = choose|i: int| 0 <= i < pre.len() && #[trigger] pre[i].job_id == k;
            assert(m.contains_key(pre[i].job_id));
        }
    }
    assert forall|i: int| 0 <= i < post.len() implies out_wf_one(#[trigger] post[i]) by {
        assert(post[i].history_output == pre[i].history_output);
        assert(out_wf_one(pre[i]));
    }
    if fin {
        assert forall|i: int| 0 <= i < post.len() implies finished(#[trigger] post[i].state) by {
            assert(post[i].job_id == pre[i].job_id);
            assert(finished(pre[i].state));
        }
    }
    assert forall|i: int| 0 <= i < pre.len() implies lc_le(pre[i].state, (#[trigger] post[i]).state) by {
        assert(post[i].job_id == pre[i].job_id);
    }
    assert forall|i: int| 0 <= i < pre.len() implies (#[trigger] post[i]).job_id == pre[i].job_id by {}
    assert forall|i: int| 0 <= i < pre.len() implies (pre[i].history_output is Some ==> (#[trigger] post[i]).history_output == pre[i].history_output) by {
        assert(post[i].job_id == pre[i].job_id);
    }
}

impl<T: PPGEvaluatorStrategy> PPGEvaluator<T> {
    spec fn core_structure(&self) -> bool {
        core_struct(self.jobs@, self.job_id_to_node_idx@, &self.dag, self.jobs_ready_to_run@, self.jobs_ready_for_cleanup@, self.already_started is Finished)
    }

    spec fn core_x(&self, x: int) -> bool {
        core_ok_x(self.jobs@, self.job_id_to_node_idx@, &self.dag, self.jobs_ready_to_run@, self.jobs_ready_for_cleanup@, self.already_started is Finished, x)
    }

    spec fn core(&self) -> bool {
        core_ok(self.jobs@, self.job_id_to_node_idx@, &self.dag, self.jobs_ready_to_run@, self.jobs_ready_for_cleanup@, self.already_started is Finished)
    }
}

impl<T: PPGEvaluatorStrategy> PPGEvaluator<T> {
    /// what a completed cascade guarantees relative to the state it started from
    spec fn cascade_post(&self, o: &Self) -> bool {
        &&& self.core()
        &&& sig_posts(o.signals@, o.signals@.len() as int, self.jobs@)
        &&& self.signals@.len() == 0
        &&& jobs_step(o.jobs@, self.jobs@)
        &&& self.history@ == o.history@
        &&& self.job_id_to_node_idx@ == o.job_id_to_node_idx@
        &&& dag_dom_same(&o.dag, &self.dag)
        &&& self.already_started == o.already_started
    }
}

/// one state write inside the cascade: re-establishes the cascade invariant and extends the step relation
proof fn lemma_arm_write(oldj: Seq<NodeInfo>, pre: Seq<NodeInfo>, post: Seq<NodeInfo>, m: Map<String, usize>, dag: &GraphType,
    r0: Set<String>, r1: Set<String>, c0: Set<String>, c1: Set<String>, fin: bool, n: int, x: int)
    requires
        jobs_step(oldj, pre), x == n || x == -1,
        core_ok_x(pre, m, dag, r0, c0, fin, x), one_changed(pre, post, n),
        lc_le(pre[n].state, post[n].state), out_wf_one(post[n]),
        needs_up(post[n].state) ==> needs_up(pre[n].state) || all_up_done(dag, pre, n as usize),
        cleanup_reached(post[n].state) ==> cleanup_reached(pre[n].state) || all_down_done(dag, pre, n as usize),
        skipped_blank(post[n]) ==> skipped_blank(pre[n]) || all_eph_down(dag, pre, n as usize),
        ab_flag(post[n]) ==> is_aborted(post[n].state),
        upfailed(post[n].state) ==> upfailed(pre[n].state) || has_failed_up(dag, pre, n as usize),
        pre[n].history_output is Some ==> post[n].history_output == pre[n].history_output,
        is_ready(pre[n].state) == is_ready(post[n].state) ==> r1 =~= r0,
        is_ready(pre[n].state) && !is_ready(post[n].state) ==> r1 =~= r0.remove(pre[n].job_id),
        !is_ready(pre[n].state) && is_ready(post[n].state) ==> r1 =~= r0.insert(pre[n].job_id),
        is_rfc(pre[n].state) == is_rfc(post[n].state) ==> c1 =~= c0,
        is_rfc(pre[n].state) && !is_rfc(post[n].state) ==> c1 =~= c0.remove(pre[n].job_id),
        !is_rfc(pre[n].state) && is_rfc(post[n].state) ==> c1 =~= c0.insert(pre[n].job_id),
    ensures core_ok(post, m, dag, r1, c1, fin), jobs_step(oldj, post), jobs_step(pre, post), core_ok_x(post, m, dag, r1, c1, fin, -1),
        (fail_cause(post[n].state) ==> fail_cause(pre[n].state)) ==> no_new_cause(pre, post),
{
    if fail_cause(post[n].state) ==> fail_cause(pre[n].state) {
        assert forall|i: int| 0 <= i < post.len() && fail_cause(#[trigger] post[i].state) implies fail_cause(pre[i].state) by {
            if i != n { assert(post[i].state == pre[i].state); }
        }
    }
    lemma_core_x(post, m, dag, r1, c1, fin, -1);
    if x == -1 { lemma_core_x(pre, m, dag, r0, c0, fin, -1); lemma_core_x(pre, m, dag, r0, c0, fin, n); }
    lemma_write_ok(pre, post, m, dag, r0, r1, c0, c1, fin, n);
    lemma_jobs_step_trans(oldj, pre, post);
}

/// a helper call inside the cascade that only moves pre-offer states (and may update edge weights)
proof fn lemma_arm_soft(oldj: Seq<NodeInfo>, pre: Seq<NodeInfo>, post: Seq<NodeInfo>, m: Map<String, usize>, dag: &GraphType,
    dag2: &GraphType, r0: Set<String>, c0: Set<String>, fin: bool)
    requires
        jobs_step(oldj, pre), core_ok(pre, m, dag, r0, c0, fin), jobs_soft(pre, post), soft_gate(pre, post, dag),
        edges_in_range(dag2, pre.len()), dag_dom_same(dag, dag2),
    ensures core_ok(post, m, dag2, r0, c0, fin), jobs_step(oldj, post), jobs_step(pre, post), core_ok_x(post, m, dag2, r0, c0, fin, -1),
        no_new_cause(pre, post),
{
    assert forall|i: int| 0 <= i < post.len() && fail_cause(#[trigger] post[i].state) implies fail_cause(pre[i].state) by {
        assert(post[i].job_id == pre[i].job_id);
    }
    lemma_soft_ok(pre, post, m, dag, r0, c0, fin);
    lemma_dag_dom_range(dag, dag2, pre.len());
    assert forall|i: int| 0 <= i < post.len() implies (finished(post[i].state) ==> finished(#[trigger] post[i].state)) by {}
    lemma_gates_same_status(post, post, dag, dag2);
    lemma_core_x(post, m, dag2, r0, c0, fin, -1);
    lemma_jobs_step_trans(oldj, pre, post);
}

proof fn lemma_arm_touch(oldj: Seq<NodeInfo>, pre: Seq<NodeInfo>, post: Seq<NodeInfo>, m: Map<String, usize>, dag: &GraphType,
    r0: Set<String>, c0: Set<String>, fin: bool)
    requires
        jobs_step(oldj, pre), core_ok(pre, m, dag, r0, c0, fin), jobs_touch(pre, post),
    ensures core_ok(post, m, dag, r0, c0, fin), jobs_step(oldj, post), jobs_step(pre, post), core_ok_x(post, m, dag, r0, c0, fin, -1),
        no_new_cause(pre, post),
{
    lemma_touch_is_soft(pre, post);
    assert(soft_gate(pre, post, dag)) by {
        assert forall|i: int| 0 <= i < pre.len() && needs_up(#[trigger] post[i].state) && !needs_up(pre[i].state) implies all_up_done(dag, pre, i as usize) by {
            assert(post[i].state == pre[i].state);
        }
    }
    lemma_arm_soft(oldj, pre, post, m, dag, dag, r0, c0, fin);
    lemma_core_x(post, m, dag, r0, c0, fin, -1);
}

proof fn lemma_arm_cleanup(oldj: Seq<NodeInfo>, pre: Seq<NodeInfo>, post: Seq<NodeInfo>, m: Map<String, usize>, dag: &GraphType,
    r0: Set<String>, c0: Set<String>, c1: Set<String>, fin: bool)
    requires
        jobs_step(oldj, pre), core_ok(pre, m, dag, r0, c0, fin), cleanup_frame(pre, post),
        forall|i: int| 0 <= i < post.len() ==> (is_rfc(#[trigger] post[i].state) <==> c1.contains(post[i].job_id)),
        forall|k: String| #[trigger] c1.contains(k) ==> c0.contains(k) || exists|i: int| 0 <= i < pre.len() && #[trigger] pre[i].job_id == k,
        forall|i: int| 0 <= i < pre.len() && is_rfc(#[trigger] post[i].state) && !is_rfc(pre[i].state) ==> all_down_done(dag, pre, i as usize),
    ensures core_ok(post, m, dag, r0, c1, fin), jobs_step(oldj, post), jobs_step(pre, post), core_ok_x(post, m, dag, r0, c1, fin, -1),
        no_new_cause(pre, post),
{
    assert forall|i: int| 0 <= i < post.len() && fail_cause(#[trigger] post[i].state) implies fail_cause(pre[i].state) by {
        assert(post[i].job_id == pre[i].job_id);
    }
    lemma_core_x(post, m, dag, r0, c1, fin, -1);
    lemma_cleanup_ok(pre, post, m, dag, r0, c0, c1, fin);
    lemma_jobs_step_trans(oldj, pre, post);
}

proof fn lemma_core_gives_unique(jobs: Seq<NodeInfo>, m: Map<String, usize>)
    requires ids_wf(jobs, m),
    ensures forall|i: int, k: int| 0 <= i < jobs.len() && 0 <= k < jobs.len() && i != k ==> (#[trigger] jobs[i]).job_id != (#[trigger] jobs[k]).job_id,
{
    assert forall|i: int, k: int| 0 <= i < jobs.len() && 0 <= k < jobs.len() && i != k implies (#[trigger] jobs[i]).job_id != (#[trigger] jobs[k]).job_id by {
        if jobs[i].job_id == jobs[k].job_id { lemma_ids_unique(jobs, m, i, k); }
    }
}

proof fn lemma_sigs_push(s: Seq<Signal>, x: Signal, n: nat)
    requires sigs_valid(s, n), x.node_idx < n, x.kind != SignalKind::JobFinishedSuccess,
    ensures sigs_valid(s.push(x), n),
{
    assert forall|k: int| 0 <= k < s.push(x).len() implies (#[trigger] s.push(x)[k]).node_idx < n && s.push(x)[k].kind != SignalKind::JobFinishedSuccess by {
        if k < s.len() { assert(s.push(x)[k] == s[k]); }
    }
}

proof fn lemma_sigs_subset(a: Seq<Signal>, b: Seq<Signal>, n: nat)
    requires sigs_valid(a, n), forall|k: int| 0 <= k < b.len() ==> a.contains(#[trigger] b[k]),
    ensures sigs_valid(b, n),
{
    assert forall|k: int| 0 <= k < b.len() implies (#[trigger] b[k]).node_idx < n && b[k].kind != SignalKind::JobFinishedSuccess by {
        let q = choose|q: int| 0 <= q < a.len() && a[q] == b[k];
        assert(a[q].node_idx < n);
    }
}

/// what the cascade guarantees about the job of an initially pending signal once that signal has been
/// handled without an internal error (all four are stable under the lifecycle order)
spec fn sig_post(s: Signal, jobs: Seq<NodeInfo>) -> bool {
    let st = jobs[s.node_idx as int].state;
    match s.kind {
        SignalKind::JobAborted => finished(st),
        SignalKind::JobFinishedFailure => is_exec_failure(st),
        SignalKind::JobFinishedSuccess => ran_ok(st),
        SignalKind::JobCleanedUp => st == JobState::Ephemeral(JobStateEphemeral::FinishedSuccessCleanedUp),
        // a job that had not been offered when the notification was handled is upstream-failed now (the handler's
        // own two-state clause says so); one that had already been offered, started or finished is left alone (C07:
        // "no job that was started is ever reported upstream-failed") - either way it is past the pre-offer phase
        SignalKind::JobUpstreamFailure => !pre_offer(st),
        _ => true,
    }
}

spec fn sig_posts(sigs: Seq<Signal>, upto: int, jobs: Seq<NodeInfo>) -> bool {
    forall|k: int| 0 <= k < upto ==> sig_post(#[trigger] sigs[k], jobs)
}

/// the same, restricted to the signals of one kind (so that a failing handler implicates only the
/// properties that speak about that kind of event)
spec fn sig_posts_of(kind: SignalKind, sigs: Seq<Signal>, upto: int, jobs: Seq<NodeInfo>) -> bool {
    forall|k: int| 0 <= k < upto && (#[trigger] sigs[k]).kind == kind ==> sig_post(sigs[k], jobs)
}

proof fn lemma_sig_posts_step(sigs: Seq<Signal>, upto: int, a: Seq<NodeInfo>, b: Seq<NodeInfo>)
    requires sig_posts(sigs, upto, a), jobs_step(a, b), 0 <= upto <= sigs.len(),
        forall|k: int| 0 <= k < sigs.len() ==> (#[trigger] sigs[k]).node_idx < a.len(),
    ensures sig_posts(sigs, upto, b),
{
    assert forall|k: int| 0 <= k < upto implies sig_post(#[trigger] sigs[k], b) by {
        let i = sigs[k].node_idx as int;
        assert(sig_post(sigs[k], a));
        assert(lc_le(a[i].state, b[i].state));
        lemma_lc_consequences(a[i].state, b[i].state);
    }
}

spec fn all_aborts(sigs: Seq<Signal>) -> bool {
    forall|k: int| 0 <= k < sigs.len() ==> (#[trigger] sigs[k]).kind == SignalKind::JobAborted
}

// ---- public operations
proof fn lemma_all_finished_nothing_ready(jobs: Seq<NodeInfo>, m: Map<String, usize>, ready: Set<String>)
    requires ids_wf(jobs, m), ready_set_wf(jobs, ready, m),
        forall|i: int| 0 <= i < jobs.len() ==> finished(#[trigger] jobs[i].state),
    ensures ready =~= Set::<String>::empty(),
        forall|i: int| 0 <= i < jobs.len() ==> !is_running(#[trigger] jobs[i].state) && !is_ready(jobs[i].state),
{
    assert forall|k: String| !ready.contains(k) by {
        if ready.contains(k) {
            assert(m.contains_key(k));
            let i = m[k] as int;
            assert(jobs[i].job_id == k);
            assert(is_ready(jobs[i].state) <==> ready.contains(jobs[i].job_id));
            assert(finished(jobs[i].state));
        }
    }
}

/// storing the reported output of a Running job (before its "finished successfully" signal is handled)
proof fn lemma_set_output_ok(pre: Seq<NodeInfo>, post: Seq<NodeInfo>, m: Map<String, usize>, dag: &GraphType,
    r0: Set<String>, c0: Set<String>, fin: bool, n: int)
    requires core_ok(pre, m, dag, r0, c0, fin), one_changed(pre, post, n), post[n].state == pre[n].state,
        is_running(pre[n].state), post[n].history_output is Some, ab_flag(post[n]) == ab_flag(pre[n]),
    ensures core_ok_x(post, m, dag, r0, c0, fin, n), jobs_step(pre, post),
{
    lemma_ids_after_write(pre, post, m, n);
    lemma_ready_set_after_write(pre, post, m, r0, r0, n);
    lemma_cleanup_set_after_write(pre, post, m, c0, c0, n);
    lemma_gates_after_write(pre, post, dag, n);
    assert(out_wf_one(pre[n]));
    lemma_lc_order(pre[n].state, pre[n].state, pre[n].state);
    lemma_step_after_write(pre, post, n);
    assert forall|i: int| 0 <= i < post.len() && i != n implies out_wf_one(#[trigger] post[i]) by {
        assert(out_wf_one(pre[i]));
    }
    if fin {
        assert forall|i: int| 0 <= i < post.len() implies finished(#[trigger] post[i].state) by {
            assert(finished(pre[i].state));
        }
    }
}

spec fn uview(v: &Vec<usize>) -> Seq<usize> { v@ }

impl<T: PPGEvaluatorStrategy> PPGEvaluator<T> {
    /// C16: a validated Ephemeral (inputs unchanged) that was executed again reports an output the
    /// configured comparison judges different from its recorded one
    spec fn eph_changed(&self, i: int, new_output: Seq<char>) -> bool {
        let j = self.jobs@[i];
        &&& j.state == JobState::Ephemeral(JobStateEphemeral::Running(ValidationStatus::Validated))
        &&& self.history@.contains_key(j.job_id)
        &&& self.strategy.altered(j.job_id@, "!!!"@, self.history@[j.job_id]@, new_output)
    }
}

/// what the part -> owning job map built at the top of new_history contains, for the first `upto` jobs
spec fn parts_map_ok<'a>(pm: Map<&'a str, String>, jobs: Seq<NodeInfo>, upto: int) -> bool {
    &&& forall|k: &'a str| #[trigger] pm.contains_key(k) ==> exists|i: int| 0 <= i < upto
            && #[trigger] jobs[i].job_id@ == pm[k]@ && parts(jobs[i].job_id@).contains(k@)
    &&& forall|i: int, p: Seq<char>| 0 <= i < upto && #[trigger] parts(jobs[i].job_id@).contains(p)
            ==> exists|k: &'a str| #![trigger pm.contains_key(k)] k@ == p && pm.contains_key(k)
}

/// inside the construction loop: jobs < i0 done, of job i0 the parts ps[0..upto) done
spec fn parts_map_ok_partial<'a>(pm: Map<&'a str, String>, jobs: Seq<NodeInfo>, i0: int, ps: Seq<&str>, upto: int) -> bool {
    &&& forall|k: &'a str| #[trigger] pm.contains_key(k) ==> exists|i: int| 0 <= i <= i0
            && #[trigger] jobs[i].job_id@ == pm[k]@ && parts(jobs[i].job_id@).contains(k@)
    &&& forall|i: int, p: Seq<char>| 0 <= i < i0 && #[trigger] parts(jobs[i].job_id@).contains(p)
            ==> exists|k: &'a str| #![trigger pm.contains_key(k)] k@ == p && pm.contains_key(k)
    &&& forall|q: int| 0 <= q < upto ==> exists|k: &'a str| #![trigger pm.contains_key(k)] k@ == (#[trigger] ps[q])@ && pm.contains_key(k)
}

proof fn lemma_parts_map_insert_part<'a>(pm1: Map<&'a str, String>, pm2: Map<&'a str, String>, jobs: Seq<NodeInfo>, i0: int,
    ps: Seq<&str>, idx: int, part: &'a str)
    requires
        parts_map_ok_partial(pm1, jobs, i0, ps, idx), 0 <= i0 < jobs.len(), 0 <= idx < ps.len(), part@ == ps[idx]@,
        parts(jobs[i0].job_id@).contains(part@),
        pm2.dom() =~= pm1.dom().insert(part), pm2[part]@ == jobs[i0].job_id@,
        forall|k: &'a str| k != part && #[trigger] pm1.contains_key(k) ==> pm2[k] == pm1[k],
    ensures parts_map_ok_partial(pm2, jobs, i0, ps, idx + 1),
{
    broadcast use group_verif_strref_axioms;
    assert forall|k: &'a str| #[trigger] pm2.contains_key(k) implies exists|i: int| 0 <= i <= i0
            && #[trigger] jobs[i].job_id@ == pm2[k]@ && parts(jobs[i].job_id@).contains(k@) by {
        if k == part {
            assert(jobs[i0].job_id@ == pm2[k]@ && parts(jobs[i0].job_id@).contains(k@));
        } else {
            assert(pm1.contains_key(k));
            let i = choose|i: int| 0 <= i <= i0 && #[trigger] jobs[i].job_id@ == pm1[k]@ && parts(jobs[i].job_id@).contains(k@);
            assert(jobs[i].job_id@ == pm2[k]@);
        }
    }
    assert forall|i: int, p: Seq<char>| 0 <= i < i0 && #[trigger] parts(jobs[i].job_id@).contains(p)
            implies exists|k: &'a str| #![trigger pm2.contains_key(k)] k@ == p && pm2.contains_key(k) by {
        let k = choose|k: &'a str| #![trigger pm1.contains_key(k)] k@ == p && pm1.contains_key(k);
        assert(pm2.contains_key(k));
    }
    assert forall|q: int| 0 <= q < idx + 1 implies exists|k: &'a str| #![trigger pm2.contains_key(k)] k@ == (#[trigger] ps[q])@ && pm2.contains_key(k) by {
        if q < idx {
            let k = choose|k: &'a str| #![trigger pm1.contains_key(k)] k@ == ps[q]@ && pm1.contains_key(k);
            assert(pm2.contains_key(k));
        } else {
            assert(pm2.contains_key(part));
        }
    }
}

/// the `:::` branch: every part of job i0 has been inserted
proof fn lemma_parts_map_multi_done<'a>(pm: Map<&'a str, String>, jobs: Seq<NodeInfo>, i0: int, ps: Seq<&str>)
    requires
        parts_map_ok_partial(pm, jobs, i0, ps, ps.len() as int), 0 <= i0 < jobs.len(),
        forall|p: Seq<char>| #![trigger parts(jobs[i0].job_id@).contains(p)] parts(jobs[i0].job_id@).contains(p) <==> exists|q: int| 0 <= q < ps.len() && (#[trigger] ps[q])@ == p,
    ensures parts_map_ok(pm, jobs, i0 + 1),
{
    assert forall|k: &'a str| #[trigger] pm.contains_key(k) implies exists|i: int| 0 <= i < i0 + 1
            && #[trigger] jobs[i].job_id@ == pm[k]@ && parts(jobs[i].job_id@).contains(k@) by {
        let i = choose|i: int| 0 <= i <= i0 && #[trigger] jobs[i].job_id@ == pm[k]@ && parts(jobs[i].job_id@).contains(k@);
        assert(0 <= i < i0 + 1);
    }
    assert forall|i: int, p: Seq<char>| 0 <= i < i0 + 1 && #[trigger] parts(jobs[i].job_id@).contains(p)
            implies exists|k: &'a str| #![trigger pm.contains_key(k)] k@ == p && pm.contains_key(k) by {
        if i == i0 {
            let q = choose|q: int| 0 <= q < ps.len() && (#[trigger] ps[q])@ == p;
            let k = choose|k: &'a str| #![trigger pm.contains_key(k)] k@ == ps[q]@ && pm.contains_key(k);
        }
    }
}

/// the plain branch: the id itself is its only part
proof fn lemma_parts_map_single_done<'a>(pm0: Map<&'a str, String>, pm2: Map<&'a str, String>, jobs: Seq<NodeInfo>, i0: int, key: &'a str)
    requires
        parts_map_ok(pm0, jobs, i0), 0 <= i0 < jobs.len(), key@ == jobs[i0].job_id@, !str_contains_multi(jobs[i0].job_id@),
        pm2.dom() =~= pm0.dom().insert(key), pm2[key]@ == jobs[i0].job_id@,
        forall|k: &'a str| k != key && #[trigger] pm0.contains_key(k) ==> pm2[k] == pm0[k],
    ensures parts_map_ok(pm2, jobs, i0 + 1),
{
    broadcast use group_verif_strref_axioms;
    broadcast use group_verif_str_axioms;
    axiom_parts_single(jobs[i0].job_id@);
    assert forall|k: &'a str| #[trigger] pm2.contains_key(k) implies exists|i: int| 0 <= i < i0 + 1
            && #[trigger] jobs[i].job_id@ == pm2[k]@ && parts(jobs[i].job_id@).contains(k@) by {
        if k == key {
            assert(jobs[i0].job_id@ == pm2[k]@ && parts(jobs[i0].job_id@).contains(k@));
        } else {
            assert(pm0.contains_key(k));
            let i = choose|i: int| 0 <= i < i0 && #[trigger] jobs[i].job_id@ == pm0[k]@ && parts(jobs[i].job_id@).contains(k@);
            assert(jobs[i].job_id@ == pm2[k]@);
        }
    }
    assert forall|i: int, p: Seq<char>| 0 <= i < i0 + 1 && #[trigger] parts(jobs[i].job_id@).contains(p)
            implies exists|k: &'a str| #![trigger pm2.contains_key(k)] k@ == p && pm2.contains_key(k) by {
        if i == i0 {
            assert(p == jobs[i0].job_id@);
            assert(pm2.contains_key(key));
        } else {
            let k = choose|k: &'a str| #![trigger pm0.contains_key(k)] k@ == p && pm0.contains_key(k);
            assert(pm2.contains_key(k));
        }
    }
}

spec fn pm_owner<'a>(pm: Map<&'a str, String>, p: Seq<char>) -> Option<Seq<char>> {
    if exists|k: &'a str| #![trigger pm.contains_key(k)] k@ == p && pm.contains_key(k) {
        let k = choose|k: &'a str| #![trigger pm.contains_key(k)] k@ == p && pm.contains_key(k);
        Some(pm[k]@)
    } else {
        None
    }
}

proof fn lemma_superseded_by_owner<'a>(jobs: Seq<NodeInfo>, pm: Map<&'a str, String>, id: Seq<char>, k: &'a str)
    requires parts_map_ok(pm, jobs, jobs.len() as int), parts(id).contains(k@), pm.contains_key(k), pm[k]@ != id,
    ensures superseded(jobs, id),
{
    let i = choose|i: int| 0 <= i < jobs.len() && #[trigger] jobs[i].job_id@ == pm[k]@ && parts(jobs[i].job_id@).contains(k@);
    assert(parts(jobs[i].job_id@).contains(k@) && parts(id).contains(k@) && jobs[i].job_id@ != id);
}

proof fn lemma_not_superseded<'a>(jobs: Seq<NodeInfo>, m: Map<String, usize>, pm: Map<&'a str, String>, id: Seq<char>, s: Seq<&str>)
    requires
        parts_map_ok(pm, jobs, jobs.len() as int), parts_disjoint(jobs), ids_wf(jobs, m),
        forall|p: Seq<char>| #![trigger parts(id).contains(p)] parts(id).contains(p) <==> exists|q: int| 0 <= q < s.len() && (#[trigger] s[q])@ == p,
        forall|q: int, k: &'a str| 0 <= q < s.len() && k@ == (#[trigger] s[q])@ && #[trigger] pm.contains_key(k) ==> pm[k]@ == id,
    ensures !superseded(jobs, id),
{
    broadcast use group_verif_axioms;
    broadcast use group_verif_strref_axioms;
    if superseded(jobs, id) {
        let (i, p) = choose|i: int, p: Seq<char>| 0 <= i < jobs.len() && #[trigger] parts(jobs[i].job_id@).contains(p)
            && parts(id).contains(p) && jobs[i].job_id@ != id;
        let q = choose|q: int| 0 <= q < s.len() && (#[trigger] s[q])@ == p;
        let k = choose|k: &'a str| #![trigger pm.contains_key(k)] k@ == p && pm.contains_key(k);
        assert(pm[k]@ == id);
        // then `id` itself is a present job sharing output p with the different present job i
        let j = choose|j: int| 0 <= j < jobs.len() && #[trigger] jobs[j].job_id@ == pm[k]@ && parts(jobs[j].job_id@).contains(k@);
        assert(jobs[j].job_id@ != jobs[i].job_id@);
        assert(i != j);
        assert(parts(jobs[i].job_id@).contains(p));
        assert(!parts(jobs[j].job_id@).contains(p));
    }
}

proof fn lemma_add_node_ok(pre: Seq<NodeInfo>, post: Seq<NodeInfo>, m0: Map<String, usize>, m1: Map<String, usize>,
    dag0: &GraphType, dag1: &GraphType, ready: Set<String>, cleanup: Set<String>)
    requires
        core_ok(pre, m0, dag0, ready, cleanup, false), pre.len() < usize::MAX,
        post.len() == pre.len() + 1,
        forall|i: int| 0 <= i < pre.len() ==> #[trigger] post[i] == pre[i],
        forall|i: int| 0 <= i < pre.len() ==> (#[trigger] pre[i]).job_id@ != post[pre.len() as int].job_id@,
        valid_id(post[pre.len() as int].job_id@),
        fresh_state(post[pre.len() as int].state), post[pre.len() as int].history_output is None,
        !ab_flag(post[pre.len() as int]),
        m1 == m0.insert(post[pre.len() as int].job_id, pre.len() as usize),
        dag1.nodes_set() == dag0.nodes_set().insert(pre.len() as usize), dag1.edges() == dag0.edges(),
    ensures core_ok(post, m1, dag1, ready, cleanup, false),
{
    broadcast use group_verif_axioms;
    let n = pre.len() as int;
    let nid = post[n].job_id;
    assert(uf_cause_ok(post, dag1)) by {
        assert forall|i: int| #![trigger upfailed(post[i].state)] 0 <= i < post.len() && upfailed(post[i].state) implies i < pre.len() && upfailed(pre[i].state) by {
            if i < n { assert(post[i] == pre[i]); }
        }
        assert forall|i: int| 0 <= i < pre.len() && fail_cause(pre[i].state) implies fail_cause(#[trigger] post[i].state) by { assert(post[i] == pre[i]); }
        assert forall|x: usize, y: usize| #![trigger dag0.has_edge(x, y)] dag0.has_edge(x, y) implies dag1.has_edge(x, y) by {}
        lemma_uf_cause_kept(pre, post, dag0, dag1);
    }
    assert(blank_skips_ok(post, dag1)) by {
        assert forall|i: int| 0 <= i < pre.len() implies same_kind(pre[i].state, (#[trigger] post[i]).state) by { assert(post[i] == pre[i]); }
        assert forall|i: int| #![trigger skipped_blank(post[i])] 0 <= i < post.len() && skipped_blank(post[i]) implies i < pre.len() && skipped_blank(pre[i]) by {
            if i < n { assert(post[i] == pre[i]); }
        }
        lemma_blank_skips_sub(pre, post, dag0, dag1);
    }
    assert(!m0.contains_key(nid)) by {
        if m0.contains_key(nid) { let i = m0[nid] as int; assert(pre[i].job_id == nid); }
    }
    assert forall|i: int| 0 <= i < post.len() implies #[trigger] m1.contains_key(post[i].job_id)
            && m1[post[i].job_id] == i && valid_id(post[i].job_id@) by {
        if i < n { assert(post[i] == pre[i]); assert(m0.contains_key(pre[i].job_id)); assert(pre[i].job_id != nid); }
    }
    assert forall|k: String| #[trigger] m1.contains_key(k) implies m1[k] < post.len() && post[m1[k] as int].job_id == k by {
        if k != nid { assert(m0.contains_key(k)); let i = m0[k] as int; assert(post[i] == pre[i]); }
    }
    assert forall|i: int| 0 <= i < post.len() implies (is_ready(#[trigger] post[i].state) <==> ready.contains(post[i].job_id)) by {
        if i < n { assert(post[i] == pre[i]); assert(is_ready(pre[i].state) <==> ready.contains(pre[i].job_id)); }
        else { if ready.contains(nid) { assert(m0.contains_key(nid)); } }
    }
    assert forall|k: String| #[trigger] ready.contains(k) implies m1.contains_key(k) by { assert(m0.contains_key(k)); }
    assert forall|i: int| 0 <= i < post.len() implies (is_rfc(#[trigger] post[i].state) <==> cleanup.contains(post[i].job_id)) by {
        if i < n { assert(post[i] == pre[i]); assert(is_rfc(pre[i].state) <==> cleanup.contains(pre[i].job_id)); }
        else { if cleanup.contains(nid) { assert(m0.contains_key(nid)); } }
    }
    assert forall|k: String| #[trigger] cleanup.contains(k) implies m1.contains_key(k) by { assert(m0.contains_key(k)); }
    assert forall|i: int| 0 <= i < post.len() implies out_wf_one(#[trigger] post[i]) by {
        if i < n { assert(post[i] == pre[i]); assert(out_wf_one(pre[i])); }
    }
    assert forall|a: usize, b: usize| #![trigger dag1.has_edge(a, b)] dag1.has_edge(a, b) implies a < post.len() && b < post.len() && a != b by {
        assert(dag0.has_edge(a, b));
    }
    assert forall|i: int| 0 <= i < post.len() && needs_up(#[trigger] post[i].state) implies all_up_done(dag1, post, i as usize) by {
        assert(i < n);
        assert(post[i] == pre[i]);
        assert(all_up_done(dag0, pre, i as usize));
        assert forall|u: usize| #![trigger dag1.is_nbr(i as usize, Direction::Incoming, u)] dag1.is_nbr(i as usize, Direction::Incoming, u)
            implies finished(post[u as int].state) by {
            assert(dag0.has_edge(u, i as usize));
            assert(dag0.is_nbr(i as usize, Direction::Incoming, u));
            assert(post[u as int] == pre[u as int]);
        }
    }
    assert forall|i: int| 0 <= i < post.len() && cleanup_reached(#[trigger] post[i].state) implies all_down_done(dag1, post, i as usize) by {
        assert(i < n);
        assert(post[i] == pre[i]);
        assert(all_down_done(dag0, pre, i as usize));
        assert forall|d: usize| #![trigger dag1.is_nbr(i as usize, Direction::Outgoing, d)] dag1.is_nbr(i as usize, Direction::Outgoing, d)
            implies finished(post[d as int].state) by {
            assert(dag0.has_edge(i as usize, d));
            assert(dag0.is_nbr(i as usize, Direction::Outgoing, d));
            assert(post[d as int] == pre[d as int]);
        }
    }
}

/// the state add_node gives a job
spec fn fresh_state(s: JobState) -> bool {
    s == JobState::Always(JobStateAlways::Undetermined)
        || s == JobState::Output(JobStateOutput::NotReady(ValidationStatus::Unknown))
        || s == JobState::Ephemeral(JobStateEphemeral::NotReady(ValidationStatus::Unknown))
}

spec fn all_fresh(jobs: Seq<NodeInfo>) -> bool {
    forall|i: int| 0 <= i < jobs.len() ==> fresh_state(#[trigger] jobs[i].state)
}

// ---- startup classification (C03 clause: same set of input names, result exists, has a record)
/// C03: the job's recorded input-name list exists and differs from the current one, or it has no
/// upstream and no such record
spec fn inputs_changed_spec(strategy_list: Seq<char>, h: Map<String, String>, id: Seq<char>, has_up: bool) -> bool {
    let k = str_of(key_inputs(id));
    if h.contains_key(k) { h[k]@ != strategy_list } else { !has_up }
}

/// the state identify_missing_outputs gives a fresh job
spec fn startup_state(s: JobState, changed: bool, present: bool, own_record: bool) -> JobState {
    match s {
        JobState::Always(_) => s,
        JobState::Output(_) => if changed || !present || !own_record {
            JobState::Output(JobStateOutput::NotReady(ValidationStatus::Invalidated))
        } else { s },
        JobState::Ephemeral(_) => if changed {
            JobState::Ephemeral(JobStateEphemeral::NotReady(ValidationStatus::Invalidated))
        } else { s },
    }
}

spec fn topo_ok(topo: Option<Vec<usize>>, dag: &GraphType) -> bool {
    topo is Some && topo.unwrap()@.no_duplicates()
        && forall|m: usize| #![trigger topo.unwrap()@.contains(m)] topo.unwrap()@.contains(m) <==> dag.nodes_set().contains(m)
}

/// C13: a pending "this job is finished" announcement for node d (its handler examines d's Ephemeral upstreams for cleanup)
spec fn has_done_signal(s: Seq<Signal>, d: usize) -> bool {
    exists|k: int| 0 <= k < s.len() && (#[trigger] s[k]).kind == SignalKind::JobDone && s[k].node_idx == d
}

/// C07: a pending "your upstream failed" notification for node d
spec fn has_upfail_signal(s: Seq<Signal>, d: usize) -> bool {
    exists|k: int| 0 <= k < s.len() && (#[trigger] s[k]).kind == SignalKind::JobUpstreamFailure && s[k].node_idx == d
}

proof fn lemma_upfail_push(s: Seq<Signal>, x: Signal, d: usize)
    ensures
        has_upfail_signal(s, d) ==> has_upfail_signal(s.push(x), d),
        x.kind == SignalKind::JobUpstreamFailure && x.node_idx == d ==> has_upfail_signal(s.push(x), d),
{
    if has_upfail_signal(s, d) {
        let k = choose|k: int| 0 <= k < s.len() && (#[trigger] s[k]).kind == SignalKind::JobUpstreamFailure && s[k].node_idx == d;
        assert(s.push(x)[k] == s[k]);
    }
    if x.kind == SignalKind::JobUpstreamFailure && x.node_idx == d {
        assert(s.push(x)[s.len() as int] == x);
    }
}

/// remove_consider_signals keeps every notification
proof fn lemma_upfail_kept(a: Seq<Signal>, b: Seq<Signal>, d: usize)
    requires has_upfail_signal(a, d),
        forall|k: int| 0 <= k < a.len() && (#[trigger] a[k]).kind != SignalKind::ConsiderJob ==> b.contains(a[k]),
    ensures has_upfail_signal(b, d),
{
    let k = choose|k: int| 0 <= k < a.len() && (#[trigger] a[k]).kind == SignalKind::JobUpstreamFailure && a[k].node_idx == d;
    assert(b.contains(a[k]));
    let q = choose|q: int| 0 <= q < b.len() && b[q] == a[k];
    assert(b[q].kind == SignalKind::JobUpstreamFailure && b[q].node_idx == d);
}

// ---- G3b (C07): isolation.  A job that has not been started (still before its offer, or skipped early) and has a
// direct upstream that failed or is upstream-failed has a notification pending; with the queues empty there is no such job.
/// the job still needs to hear about a failed upstream: not yet offered, or skipped early (the Ephemeral jobs on which only
/// Ephemeral jobs depend are exempt: "they are never needed and simply stay skipped")
#[verifier::opaque]
spec fn needs_notice(dag: &GraphType, jobs: Seq<NodeInfo>, d: usize) -> bool {
    pre_offer(jobs[d as int].state)
        || (is_skipped(jobs[d as int].state) && !(jobs[d as int].state is Ephemeral && all_eph_down(dag, jobs, d)))
}

spec fn has_upfail_from(s: Seq<Signal>, from: int, d: usize) -> bool {
    exists|k: int| from <= k < s.len() && (#[trigger] s[k]).kind == SignalKind::JobUpstreamFailure && s[k].node_idx == d
}

#[verifier::opaque]
spec fn pend_ok(dag: &GraphType, jobs: Seq<NodeInfo>, q1: Seq<Signal>, from: int, q2: Seq<Signal>) -> bool {
    forall|u: usize, d: usize| #![trigger dag.has_edge(u, d)] dag.has_edge(u, d) && fail_cause(jobs[u as int].state) && needs_notice(dag, jobs, d)
        ==> has_upfail_from(q1, from, d) || has_upfail_signal(q2, d)
}

/// between public calls: no job that still waits (or was skipped) has a failed or upstream-failed direct upstream
spec fn iso_ok(dag: &GraphType, jobs: Seq<NodeInfo>) -> bool {
    pend_ok(dag, jobs, Seq::<Signal>::empty(), 0, Seq::<Signal>::empty())
}

/// what the clause says at the end of an evaluation, spelled out (every job finished)
proof fn lemma_iso_meaning(dag: &GraphType, jobs: Seq<NodeInfo>, u: usize, d: usize)
    requires iso_ok(dag, jobs), dag.has_edge(u, d), fail_cause(jobs[u as int].state),
    ensures !pre_offer(jobs[d as int].state),
        is_skipped(jobs[d as int].state) ==> jobs[d as int].state is Ephemeral && all_eph_down(dag, jobs, d),
{
    reveal(pend_ok);
    reveal(needs_notice);
    if needs_notice(dag, jobs, d) {
        assert(has_upfail_from(Seq::<Signal>::empty(), 0, d) || has_upfail_signal(Seq::<Signal>::empty(), d));
    }
}

spec fn no_new_cause(a: Seq<NodeInfo>, b: Seq<NodeInfo>) -> bool {
    a.len() == b.len() && forall|i: int| 0 <= i < b.len() && fail_cause(#[trigger] b[i].state) ==> fail_cause(a[i].state)
}

/// every pending notification of `a` is still pending in `b`
spec fn upf_mono(a: Seq<Signal>, b: Seq<Signal>) -> bool {
    forall|d: usize| #![trigger has_upfail_signal(a, d)] has_upfail_signal(a, d) ==> has_upfail_signal(b, d)
}

proof fn lemma_upf_prefix(a: Seq<Signal>, b: Seq<Signal>)
    requires a.len() <= b.len(), forall|k: int| 0 <= k < a.len() ==> #[trigger] b[k] == a[k],
    ensures upf_mono(a, b),
{
    assert forall|d: usize| #![trigger has_upfail_signal(a, d)] has_upfail_signal(a, d) implies has_upfail_signal(b, d) by {
        let k = choose|k: int| 0 <= k < a.len() && (#[trigger] a[k]).kind == SignalKind::JobUpstreamFailure && a[k].node_idx == d;
        assert(b[k] == a[k]);
    }
}

/// pushing a signal keeps every pending notification (usable with `broadcast use`: raw `push` statements carry no hint)
broadcast proof fn lemma_upf_push_b(s: Seq<Signal>, x: Signal, d: usize)
    ensures #![trigger has_upfail_signal(s.push(x), d)] #![trigger has_upfail_signal(s, d), s.push(x)]
        has_upfail_signal(s.push(x), d) == (has_upfail_signal(s, d) || (x.kind == SignalKind::JobUpstreamFailure && x.node_idx == d)),
{
    lemma_upfail_push(s, x, d);
    if has_upfail_signal(s.push(x), d) && !(x.kind == SignalKind::JobUpstreamFailure && x.node_idx == d) {
        let k = choose|k: int| 0 <= k < s.push(x).len() && (#[trigger] s.push(x)[k]).kind == SignalKind::JobUpstreamFailure && s.push(x)[k].node_idx == d;
        assert(k < s.len());
        assert(s[k] == s.push(x)[k]);
    }
}

broadcast proof fn lemma_upf_ext_b(a: Seq<Signal>, b: Seq<Signal>, n: nat)
    requires #[trigger] sig_ext_consider(a, b, n),
    ensures upf_mono(a, b),
{
    lemma_upf_prefix(a, b);
}

proof fn lemma_upf_kept(a: Seq<Signal>, b: Seq<Signal>)
    requires forall|k: int| 0 <= k < a.len() && (#[trigger] a[k]).kind != SignalKind::ConsiderJob ==> b.contains(a[k]),
    ensures upf_mono(a, b),
{
    assert forall|d: usize| #![trigger has_upfail_signal(a, d)] has_upfail_signal(a, d) implies has_upfail_signal(b, d) by {
        lemma_upfail_kept(a, b, d);
    }
}

proof fn lemma_upf_trans(a: Seq<Signal>, b: Seq<Signal>, c: Seq<Signal>)
    requires upf_mono(a, b), upf_mono(b, c),
    ensures upf_mono(a, c),
{
    assert forall|d: usize| #![trigger has_upfail_signal(a, d)] has_upfail_signal(a, d) implies has_upfail_signal(c, d) by {
        assert(has_upfail_signal(b, d));
    }
}

/// a job that needs a notice in the later state needed it in the earlier one (nothing returns to "not yet offered",
/// skipped is reached from there only, and who is exempt depends on kinds and dependencies alone)
proof fn lemma_needs_notice_back(dag: &GraphType, dag2: &GraphType, a: Seq<NodeInfo>, b: Seq<NodeInfo>, d: usize)
    requires jobs_step(a, b), dag_dom_same(dag, dag2), edges_in_range(dag, a.len()), d < a.len(), needs_notice(dag2, b, d),
    ensures needs_notice(dag, a, d),
{
    reveal(needs_notice);
    assert(lc_le(a[d as int].state, b[d as int].state));
    lemma_lc_consequences(a[d as int].state, b[d as int].state);
    if !pre_offer(a[d as int].state) {
        assert(is_skipped(b[d as int].state));
        assert(is_skipped(a[d as int].state));
        assert(a[d as int].state == b[d as int].state) by { lemma_lc_order(a[d as int].state, b[d as int].state, b[d as int].state); }
        assert forall|i: int| 0 <= i < a.len() implies same_kind(a[i].state, (#[trigger] b[i]).state) by {
            assert(lc_le(a[i].state, b[i].state));
        }
        lemma_all_eph_down_stable(dag, dag2, a, b, d);
    }
}

/// the general step: the queue position may advance over the notification just handled, the job table moves forward,
/// new causes have all their consumers notified
proof fn lemma_pend_step(dag: &GraphType, dag2: &GraphType, a: Seq<NodeInfo>, b: Seq<NodeInfo>, q1: Seq<Signal>, fa: int, fb: int,
    q2a: Seq<Signal>, q2b: Seq<Signal>)
    requires
        pend_ok(dag, a, q1, fa, q2a), jobs_step(a, b), dag_dom_same(dag, dag2), edges_in_range(dag, a.len()),
        0 <= fa <= fb <= fa + 1, fb <= q1.len(), upf_mono(q2a, q2b),
        fb == fa + 1 && q1[fa].kind == SignalKind::JobUpstreamFailure ==> q1[fa].node_idx < a.len() && !needs_notice(dag2, b, q1[fa].node_idx),
        forall|u: usize, d: usize| #![trigger dag.has_edge(u, d)] dag.has_edge(u, d) && fail_cause(b[u as int].state) && !fail_cause(a[u as int].state)
            ==> has_upfail_signal(q2b, d),
    ensures pend_ok(dag2, b, q1, fb, q2b),
{
    reveal(pend_ok);
    lemma_dag_dom_range(dag, dag2, a.len());
    assert forall|u: usize, d: usize| #![trigger dag2.has_edge(u, d)] dag2.has_edge(u, d) && fail_cause(b[u as int].state) && needs_notice(dag2, b, d)
        implies has_upfail_from(q1, fb, d) || has_upfail_signal(q2b, d) by {
        assert(dag.has_edge(u, d));
        if fail_cause(a[u as int].state) {
            lemma_needs_notice_back(dag, dag2, a, b, d);
            assert(has_upfail_from(q1, fa, d) || has_upfail_signal(q2a, d));
            if has_upfail_signal(q2a, d) {
                assert(has_upfail_signal(q2b, d));
            } else {
                let k = choose|k: int| fa <= k < q1.len() && (#[trigger] q1[k]).kind == SignalKind::JobUpstreamFailure && q1[k].node_idx == d;
                if k == fa && fb == fa + 1 {
                    assert(!needs_notice(dag2, b, d));
                } else {
                    assert(fb <= k);
                }
            }
        }
    }
}

/// a step that creates no new cause and does not move the queue position
proof fn lemma_pend_quiet(dag: &GraphType, dag2: &GraphType, a: Seq<NodeInfo>, b: Seq<NodeInfo>, q1: Seq<Signal>, from: int,
    q2a: Seq<Signal>, q2b: Seq<Signal>)
    requires
        pend_ok(dag, a, q1, from, q2a), jobs_step(a, b), no_new_cause(a, b), dag_dom_same(dag, dag2), edges_in_range(dag, a.len()),
        0 <= from <= q1.len(), upf_mono(q2a, q2b),
    ensures pend_ok(dag2, b, q1, from, q2b),
{
    assert forall|u: usize, d: usize| #![trigger dag.has_edge(u, d)] dag.has_edge(u, d) && fail_cause(b[u as int].state) && !fail_cause(a[u as int].state)
        implies has_upfail_signal(q2b, d) by {}
    lemma_pend_step(dag, dag2, a, b, q1, from, from, q2a, q2b);
}

/// the signal just taken from the queue is not a notification: nothing was pending on it
proof fn lemma_pend_skip(dag: &GraphType, jobs: Seq<NodeInfo>, q1: Seq<Signal>, from: int, q2: Seq<Signal>)
    requires pend_ok(dag, jobs, q1, from, q2), 0 <= from < q1.len(), q1[from].kind != SignalKind::JobUpstreamFailure,
    ensures pend_ok(dag, jobs, q1, from + 1, q2),
{
    reveal(pend_ok);
    assert forall|u: usize, d: usize| #![trigger dag.has_edge(u, d)] dag.has_edge(u, d) && fail_cause(jobs[u as int].state) && needs_notice(dag, jobs, d)
        implies has_upfail_from(q1, from + 1, d) || has_upfail_signal(q2, d) by {
        if !has_upfail_signal(q2, d) {
            let k = choose|k: int| from <= k < q1.len() && (#[trigger] q1[k]).kind == SignalKind::JobUpstreamFailure && q1[k].node_idx == d;
            assert(k != from);
        }
    }
}

/// no failed job at all: nothing can be pending
proof fn lemma_pend_none(dag: &GraphType, jobs: Seq<NodeInfo>, q1: Seq<Signal>, from: int, q2: Seq<Signal>)
    requires forall|i: int| 0 <= i < jobs.len() ==> !fail_cause(#[trigger] jobs[i].state), edges_in_range(dag, jobs.len()),
    ensures pend_ok(dag, jobs, q1, from, q2),
{
    reveal(pend_ok);
    assert forall|u: usize, d: usize| #![trigger dag.has_edge(u, d)] dag.has_edge(u, d) && fail_cause(jobs[u as int].state) && needs_notice(dag, jobs, d)
        implies has_upfail_from(q1, from, d) || has_upfail_signal(q2, d) by {
        assert(u < jobs.len());
        assert(!fail_cause(jobs[u as int].state));
    }
}

/// with nothing pending the clause holds whatever is put into the queue afterwards
proof fn lemma_pend_of_iso(dag: &GraphType, jobs: Seq<NodeInfo>, q1: Seq<Signal>, q2: Seq<Signal>)
    requires iso_ok(dag, jobs),
    ensures pend_ok(dag, jobs, q1, 0, q2),
{
    reveal(pend_ok);
    assert forall|u: usize, d: usize| #![trigger dag.has_edge(u, d)] dag.has_edge(u, d) && fail_cause(jobs[u as int].state) && needs_notice(dag, jobs, d)
        implies has_upfail_from(q1, 0, d) || has_upfail_signal(q2, d) by {
        assert(has_upfail_from(Seq::<Signal>::empty(), 0, d) || has_upfail_signal(Seq::<Signal>::empty(), d));
    }
}

/// both queues exhausted
proof fn lemma_iso_of_pend(dag: &GraphType, jobs: Seq<NodeInfo>, q1: Seq<Signal>, q2: Seq<Signal>)
    requires pend_ok(dag, jobs, q1, q1.len() as int, q2), q2.len() == 0,
    ensures iso_ok(dag, jobs),
{
    reveal(pend_ok);
    assert forall|u: usize, d: usize| #![trigger dag.has_edge(u, d)] dag.has_edge(u, d) && fail_cause(jobs[u as int].state) && needs_notice(dag, jobs, d)
        implies has_upfail_from(Seq::<Signal>::empty(), 0, d) || has_upfail_signal(Seq::<Signal>::empty(), d) by {
        assert(has_upfail_from(q1, q1.len() as int, d) || has_upfail_signal(q2, d));
    }
}

/// the signals queued during this wave become the queue of the next one
proof fn lemma_pend_shift(dag: &GraphType, jobs: Seq<NodeInfo>, q1: Seq<Signal>, q2: Seq<Signal>)
    requires pend_ok(dag, jobs, q1, q1.len() as int, q2),
    ensures pend_ok(dag, jobs, q2, 0, Seq::<Signal>::empty()),
{
    reveal(pend_ok);
    assert forall|u: usize, d: usize| #![trigger dag.has_edge(u, d)] dag.has_edge(u, d) && fail_cause(jobs[u as int].state) && needs_notice(dag, jobs, d)
        implies has_upfail_from(q2, 0, d) || has_upfail_signal(Seq::<Signal>::empty(), d) by {
        assert(has_upfail_from(q1, q1.len() as int, d) || has_upfail_signal(q2, d));
        let k = choose|k: int| 0 <= k < q2.len() && (#[trigger] q2[k]).kind == SignalKind::JobUpstreamFailure && q2[k].node_idx == d;
        assert(0 <= k < q2.len());
    }
}

/// isolation speaks about states and dependencies only: storing an output changes nothing
spec fn same_states(a: Seq<NodeInfo>, b: Seq<NodeInfo>) -> bool {
    a.len() == b.len() && forall|i: int| 0 <= i < a.len() ==> (#[trigger] b[i]).state == a[i].state
}

proof fn lemma_iso_same_states(dag: &GraphType, a: Seq<NodeInfo>, b: Seq<NodeInfo>)
    requires iso_ok(dag, a), same_states(a, b), edges_in_range(dag, a.len()),
    ensures iso_ok(dag, b),
{
    reveal(pend_ok);
    reveal(needs_notice);
    assert forall|u: usize, d: usize| #![trigger dag.has_edge(u, d)] dag.has_edge(u, d) && fail_cause(b[u as int].state) && needs_notice(dag, b, d)
        implies has_upfail_from(Seq::<Signal>::empty(), 0, d) || has_upfail_signal(Seq::<Signal>::empty(), d) by {
        assert(b[u as int].state == a[u as int].state);
        assert(b[d as int].state == a[d as int].state);
        assert forall|i: int| 0 <= i < a.len() implies same_kind(b[i].state, (#[trigger] a[i]).state) by { assert(b[i].state == a[i].state); }
        assert forall|x: usize, y: usize| #![trigger dag.has_edge(x, y)] dag.has_edge(x, y) implies dag.has_edge(x, y) by {}
        if a[d as int].state is Ephemeral && all_eph_down(dag, a, d) {
            lemma_all_eph_down_sub(dag, dag, a, b, d);
        }
        assert(needs_notice(dag, a, d));
    }
}

proof fn lemma_iso_empty()
    ensures forall|jobs: Seq<NodeInfo>, dag: &GraphType| jobs.len() == 0 && edges_in_range(dag, 0) ==> #[trigger] iso_ok(dag, jobs),
{
    assert forall|jobs: Seq<NodeInfo>, dag: &GraphType| jobs.len() == 0 && edges_in_range(dag, 0) implies #[trigger] iso_ok(dag, jobs) by {
        lemma_pend_none(dag, jobs, Seq::<Signal>::empty(), 0, Seq::<Signal>::empty());
    }
}

/// a new job has no dependencies yet and the others are as they were
proof fn lemma_iso_add_node(pre: Seq<NodeInfo>, post: Seq<NodeInfo>, dag0: &GraphType, dag1: &GraphType)
    requires
        iso_ok(dag0, pre), edges_in_range(dag0, pre.len()), post.len() == pre.len() + 1,
        forall|i: int| 0 <= i < pre.len() ==> #[trigger] post[i] == pre[i],
        dag1.edges() == dag0.edges(),
    ensures iso_ok(dag1, post),
{
    reveal(pend_ok);
    reveal(needs_notice);
    assert forall|u: usize, d: usize| #![trigger dag1.has_edge(u, d)] dag1.has_edge(u, d) && fail_cause(post[u as int].state) && needs_notice(dag1, post, d)
        implies has_upfail_from(Seq::<Signal>::empty(), 0, d) || has_upfail_signal(Seq::<Signal>::empty(), d) by {
        assert(dag0.has_edge(u, d));
        assert(post[u as int] == pre[u as int]);
        assert(post[d as int] == pre[d as int]);
        assert forall|i: int| 0 <= i < pre.len() implies same_kind(pre[i].state, (#[trigger] post[i]).state) by { assert(post[i] == pre[i]); }
        assert forall|x: usize, y: usize| #![trigger dag1.has_edge(x, y)] dag1.has_edge(x, y) implies dag0.has_edge(x, y) by {}
        if pre[d as int].state is Ephemeral && all_eph_down(dag0, pre, d) {
            lemma_all_eph_down_sub(dag0, dag1, pre, post, d);
        }
        assert(needs_notice(dag0, pre, d));
    }
}

/// pending decisions stay justified until they are handled:
/// "ready to run" was decided with all upstreams finished (C02); "skip" of an Ephemeral job that is not up to date
/// was decided because only Ephemeral jobs depend on it (C06: the assert in the JobFinishedSkip handler)
spec fn has_down(dag: &GraphType, n: usize) -> bool {
    exists|d: usize| #![trigger dag.is_nbr(n, Direction::Outgoing, d)] dag.is_nbr(n, Direction::Outgoing, d)
}

#[verifier::opaque]
spec fn skip_gate(dag: &GraphType, jobs: Seq<NodeInfo>, n: usize) -> bool {
    jobs[n as int].state is Ephemeral ==>
        !pre_unknown(jobs[n as int].state)
        && (jobs[n as int].state == JobState::Ephemeral(JobStateEphemeral::NotReady(ValidationStatus::Invalidated))
            ==> !has_down(dag, n) || all_eph_down(dag, jobs, n))
}

spec fn sig_gate(dag: &GraphType, jobs: Seq<NodeInfo>, s: Signal) -> bool {
    (s.kind == SignalKind::JobReadyToRun ==> all_up_done(dag, jobs, s.node_idx))
    && (s.kind == SignalKind::JobFinishedSkip ==> skip_gate(dag, jobs, s.node_idx))
    && (s.kind == SignalKind::JobUpstreamFailure ==> has_failed_up(dag, jobs, s.node_idx))
}

spec fn sigs_gate_ok(s: Seq<Signal>, from: int, dag: &GraphType, jobs: Seq<NodeInfo>) -> bool {
    forall|k: int| from <= k < s.len() ==> sig_gate(dag, jobs, #[trigger] s[k])
}

proof fn lemma_skip_gate_step(dag: &GraphType, dag2: &GraphType, a: Seq<NodeInfo>, b: Seq<NodeInfo>, n: usize)
    requires skip_gate(dag, a, n), jobs_step(a, b), dag_dom_same(dag, dag2), n < a.len(), edges_in_range(dag, a.len()),
    ensures skip_gate(dag2, b, n),
{
    reveal(skip_gate);
    lemma_dag_dom_range(dag, dag2, a.len());
    assert(lc_le(a[n as int].state, b[n as int].state));
    lemma_lc_consequences(a[n as int].state, b[n as int].state);
    if b[n as int].state is Ephemeral {
        assert(a[n as int].state is Ephemeral);
        if b[n as int].state == JobState::Ephemeral(JobStateEphemeral::NotReady(ValidationStatus::Invalidated)) {
            assert(a[n as int].state == b[n as int].state);
            assert forall|i: int| 0 <= i < a.len() implies same_kind(a[i].state, (#[trigger] b[i]).state) by {
                assert(lc_le(a[i].state, b[i].state));
            }
            lemma_all_eph_down_stable(dag, dag2, a, b, n);
            if has_down(dag2, n) {
                let d = choose|d: usize| dag2.is_nbr(n, Direction::Outgoing, d);
                assert(dag.is_nbr(n, Direction::Outgoing, d));
            }
        }
    }
}

proof fn lemma_sigs_gate_step(s: Seq<Signal>, from: int, dag: &GraphType, dag2: &GraphType, a: Seq<NodeInfo>, b: Seq<NodeInfo>)
    requires sigs_gate_ok(s, from, dag, a), jobs_step(a, b), dag_dom_same(dag, dag2), 0 <= from,
        forall|k: int| 0 <= k < s.len() ==> (#[trigger] s[k]).node_idx < a.len(), edges_in_range(dag, a.len()),
    ensures sigs_gate_ok(s, from, dag2, b),
{
    lemma_dag_dom_range(dag, dag2, a.len());
    assert forall|k: int| from <= k < s.len() implies sig_gate(dag2, b, #[trigger] s[k]) by {
        let n = s[k].node_idx;
        assert(sig_gate(dag, a, s[k]));
        if s[k].kind == SignalKind::JobReadyToRun {
            assert(all_up_done(dag, a, n));
            assert forall|u: usize| #![trigger dag2.is_nbr(n, Direction::Incoming, u)] dag2.is_nbr(n, Direction::Incoming, u) implies finished(b[u as int].state) by {
                assert(dag.is_nbr(n, Direction::Incoming, u));
                assert(dag.has_edge(u, n));
                assert(finished(a[u as int].state));
                assert(lc_le(a[u as int].state, b[u as int].state));
                lemma_lc_consequences(a[u as int].state, b[u as int].state);
            }
        }
        if s[k].kind == SignalKind::JobFinishedSkip {
            lemma_skip_gate_step(dag, dag2, a, b, n);
        }
        if s[k].kind == SignalKind::JobUpstreamFailure {
            assert forall|i: int| 0 <= i < a.len() && fail_cause(a[i].state) implies fail_cause(#[trigger] b[i].state) by {
                assert(lc_le(a[i].state, b[i].state));
                lemma_lc_consequences(a[i].state, b[i].state);
            }
            lemma_failed_up_step(dag, dag2, a, b, n);
        }
    }
}

proof fn lemma_sigs_gate_subset(a: Seq<Signal>, b: Seq<Signal>, dag: &GraphType, jobs: Seq<NodeInfo>)
    requires sigs_gate_ok(a, 0, dag, jobs), forall|k: int| 0 <= k < b.len() ==> a.contains(#[trigger] b[k]),
    ensures sigs_gate_ok(b, 0, dag, jobs),
{
    assert forall|k: int| 0 <= k < b.len() implies sig_gate(dag, jobs, #[trigger] b[k]) by {
        let q = choose|q: int| 0 <= q < a.len() && a[q] == b[k];
        assert(sig_gate(dag, jobs, a[q]));
    }
}

proof fn lemma_sigs_gate_ext(a: Seq<Signal>, b: Seq<Signal>, n: nat, dag: &GraphType, jobs: Seq<NodeInfo>)
    requires sigs_gate_ok(a, 0, dag, jobs), sig_ext_consider(a, b, n),
    ensures sigs_gate_ok(b, 0, dag, jobs),
{
    assert forall|k: int| 0 <= k < b.len() implies sig_gate(dag, jobs, #[trigger] b[k]) by {
        if k < a.len() { assert(b[k] == a[k]); assert(sig_gate(dag, jobs, a[k])); }
    }
}

/// job indices fit in usize (they are values of the id -> index map)
proof fn lemma_idx_fits(jobs: Seq<NodeInfo>, m: Map<String, usize>, i: int)
    requires ids_wf(jobs, m), 0 <= i < jobs.len(),
    ensures (i as usize) as int == i,
{
    assert(m.contains_key(jobs[i].job_id));
    assert(m[jobs[i].job_id] == i);
}

/// C05 hand-over at the upstream-failure handler: the helper's "every parked Ephemeral upstream is woken" (stated against the job
/// table at the call) holds against the table at the start of the handler as well - only the handled job itself was written before
proof fn lemma_parked_woken_rebase(dag: &GraphType, j_call: Seq<NodeInfo>, pj: Seq<NodeInfo>, sigs: Seq<Signal>, jobs: Seq<NodeInfo>, n: usize, gen: usize)
    requires
        parked_ups_woken(dag, j_call, sigs, jobs, n, gen),
        pj.len() == j_call.len(), n < pj.len(),
        edges_in_range(dag, pj.len()),
        forall|i: int| 0 <= i < pj.len() && i != n ==> (#[trigger] j_call[i]).state == pj[i].state,
    ensures parked_ups_woken(dag, pj, sigs, jobs, n, gen),
{
    reveal(parked_ups_woken);
    assert forall|u: usize| #![trigger dag.is_nbr(n, Direction::Incoming, u)] dag.is_nbr(n, Direction::Incoming, u) && is_parked_eph(pj[u as int].state)
        implies woken(sigs, jobs, u, gen) by {
        assert(u != n);
        assert(j_call[u as int].state == pj[u as int].state);
    }
}
