// ---------------------------------------------------------------------------------------------
// Spec vocabulary.  The state tables below are written from the property statements (what
// "finished", "failed", "offered", "running", "executed successfully" mean), NOT copied from the
// code; unit U0 proves the code's classification functions equal to them.
// ---------------------------------------------------------------------------------------------

spec fn always_finished(s: JobStateAlways) -> bool {
    s == JobStateAlways::FinishedSuccess || s == JobStateAlways::FinishedFailure
        || s == JobStateAlways::FinishedUpstreamFailure || s == JobStateAlways::FinishedAborted
}
spec fn always_failed(s: JobStateAlways) -> bool {
    s == JobStateAlways::FinishedFailure || s == JobStateAlways::FinishedUpstreamFailure
        || s == JobStateAlways::FinishedAborted
}
spec fn output_finished(s: JobStateOutput) -> bool {
    s == JobStateOutput::FinishedSuccess || s == JobStateOutput::FinishedFailure
        || s == JobStateOutput::FinishedUpstreamFailure || s == JobStateOutput::FinishedSkipped
        || s == JobStateOutput::FinishedAborted
}
spec fn output_failed(s: JobStateOutput) -> bool {
    s == JobStateOutput::FinishedFailure || s == JobStateOutput::FinishedUpstreamFailure
        || s == JobStateOutput::FinishedAborted
}
spec fn eph_finished(s: JobStateEphemeral) -> bool {
    s == JobStateEphemeral::FinishedSuccessNotReadyForCleanup
        || s == JobStateEphemeral::FinishedSuccessReadyForCleanup
        || s == JobStateEphemeral::FinishedSuccessCleanedUp
        || s == JobStateEphemeral::FinishedSuccessSkipCleanup
        || s == JobStateEphemeral::FinishedFailure || s == JobStateEphemeral::FinishedUpstreamFailure
        || s == JobStateEphemeral::FinishedSkipped || s == JobStateEphemeral::FinishedAborted
}
spec fn eph_failed(s: JobStateEphemeral) -> bool {
    s == JobStateEphemeral::FinishedFailure || s == JobStateEphemeral::FinishedUpstreamFailure
        || s == JobStateEphemeral::FinishedAborted
}
spec fn finished(s: JobState) -> bool {
    match s {
        JobState::Always(x) => always_finished(x),
        JobState::Output(x) => output_finished(x),
        JobState::Ephemeral(x) => eph_finished(x),
    }
}
spec fn failed(s: JobState) -> bool {
    match s {
        JobState::Always(x) => always_failed(x),
        JobState::Output(x) => output_failed(x),
        JobState::Ephemeral(x) => eph_failed(x),
    }
}
spec fn upfailed(s: JobState) -> bool {
    s == JobState::Always(JobStateAlways::FinishedUpstreamFailure)
        || s == JobState::Output(JobStateOutput::FinishedUpstreamFailure)
        || s == JobState::Ephemeral(JobStateEphemeral::FinishedUpstreamFailure)
}

spec fn edges_in_range(dag: &GraphType, len: nat) -> bool {
    forall|a: usize, b: usize| #![trigger dag.has_edge(a, b)] dag.has_edge(a, b) ==> a < len && b < len && a != b
}

spec fn all_up_done(dag: &GraphType, jobs: Seq<NodeInfo>, n: usize) -> bool {
    forall|u: usize| #![trigger dag.is_nbr(n, Direction::Incoming, u)]
        dag.is_nbr(n, Direction::Incoming, u) ==> finished(jobs[u as int].state)
}

proof fn lemma_nbr_seq_nonempty(dag: &GraphType, n: usize, d: Direction, s: Seq<usize>)
    requires nbr_seq(dag, n, d, s),
    ensures (s.len() > 0) == (exists|u: usize| dag.is_nbr(n, d, u)),
{
    if s.len() > 0 {
        assert(s.contains(s[0]));
        assert(dag.is_nbr(n, d, s[0]));
    } else {
        assert forall|u: usize| !dag.is_nbr(n, d, u) by {
            if dag.is_nbr(n, d, u) { assert(s.contains(u)); }
        }
    }
}

// ---- phases of the per-job lifecycle (from C17 / C05 / C02: "offered", "running", "executed successfully")
spec fn pre_offer(s: JobState) -> bool {
    match s {
        JobState::Always(x) => x == JobStateAlways::Undetermined,
        JobState::Output(x) => x is NotReady,
        JobState::Ephemeral(x) => x is NotReady || x == JobStateEphemeral::ReadyButDelayed,
    }
}
spec fn is_ready(s: JobState) -> bool {
    match s {
        JobState::Always(x) => x == JobStateAlways::ReadyToRun,
        JobState::Output(x) => x == JobStateOutput::ReadyToRun,
        JobState::Ephemeral(x) => x is ReadyToRun,
    }
}
spec fn is_running(s: JobState) -> bool {
    match s {
        JobState::Always(x) => x == JobStateAlways::Running,
        JobState::Output(x) => x == JobStateOutput::Running,
        JobState::Ephemeral(x) => x is Running,
    }
}
spec fn eph_success(x: JobStateEphemeral) -> bool {
    x == JobStateEphemeral::FinishedSuccessNotReadyForCleanup
        || x == JobStateEphemeral::FinishedSuccessReadyForCleanup
        || x == JobStateEphemeral::FinishedSuccessCleanedUp
        || x == JobStateEphemeral::FinishedSuccessSkipCleanup
}
/// executed successfully
spec fn ran_ok(s: JobState) -> bool {
    match s {
        JobState::Always(x) => x == JobStateAlways::FinishedSuccess,
        JobState::Output(x) => x == JobStateOutput::FinishedSuccess,
        JobState::Ephemeral(x) => eph_success(x),
    }
}
spec fn is_exec_failure(s: JobState) -> bool {
    s == JobState::Always(JobStateAlways::FinishedFailure)
        || s == JobState::Output(JobStateOutput::FinishedFailure)
        || s == JobState::Ephemeral(JobStateEphemeral::FinishedFailure)
}
spec fn is_aborted(s: JobState) -> bool {
    s == JobState::Always(JobStateAlways::FinishedAborted)
        || s == JobState::Output(JobStateOutput::FinishedAborted)
        || s == JobState::Ephemeral(JobStateEphemeral::FinishedAborted)
}
spec fn is_skipped(s: JobState) -> bool {
    s == JobState::Output(JobStateOutput::FinishedSkipped)
        || s == JobState::Ephemeral(JobStateEphemeral::FinishedSkipped)
}
spec fn same_kind(s: JobState, t: JobState) -> bool {
    (s is Always && t is Always) || (s is Output && t is Output) || (s is Ephemeral && t is Ephemeral)
}
spec fn running_of(s: JobState) -> JobState {
    match s {
        JobState::Always(_) => JobState::Always(JobStateAlways::Running),
        JobState::Output(_) => JobState::Output(JobStateOutput::Running),
        JobState::Ephemeral(JobStateEphemeral::ReadyToRun(v)) => JobState::Ephemeral(JobStateEphemeral::Running(v)),
        JobState::Ephemeral(_) => s,
    }
}

/// Lifecycle order (C17): `lc_le(s, t)` = a job may be in state s now and in state t later.
/// Written from the statement: kind never changes; offered at most once (nothing leads back to an
/// offered state); finished never becomes unfinished; executed-successfully never becomes
/// failed / upstream-failed.  It is the reflexive-transitive closure of
/// pre-offer -> {pre-offer, offered, skipped, upstream-failed, aborted}; offered -> {running, aborted};
/// running -> {success, failure, aborted}; Output skipped -> upstream-failed;
/// Ephemeral success: NotReadyForCleanup -> {ReadyForCleanup, SkipCleanup}; ReadyForCleanup -> CleanedUp.
spec fn lc_le(s: JobState, t: JobState) -> bool {
    same_kind(s, t) && (s == t
        || pre_offer(s)
        || (is_ready(s) && (is_running(t) || ran_ok(t) || is_exec_failure(t) || is_aborted(t)))
        || (is_running(s) && (ran_ok(t) || is_exec_failure(t) || is_aborted(t)))
        || (s == JobState::Output(JobStateOutput::FinishedSkipped)
            && t == JobState::Output(JobStateOutput::FinishedUpstreamFailure))
        || (s == JobState::Ephemeral(JobStateEphemeral::FinishedSuccessNotReadyForCleanup)
            && (t == JobState::Ephemeral(JobStateEphemeral::FinishedSuccessReadyForCleanup)
                || t == JobState::Ephemeral(JobStateEphemeral::FinishedSuccessSkipCleanup)
                || t == JobState::Ephemeral(JobStateEphemeral::FinishedSuccessCleanedUp)))
        || (s == JobState::Ephemeral(JobStateEphemeral::FinishedSuccessReadyForCleanup)
            && t == JobState::Ephemeral(JobStateEphemeral::FinishedSuccessCleanedUp)))
}

/// the single transitions the statement allows (one state write)
spec fn lc_step(s: JobState, t: JobState) -> bool {
    same_kind(s, t) && (
        (pre_offer(s) && (pre_offer(t) || is_ready(t) || is_skipped(t) || upfailed(t) || is_aborted(t)))
        || (is_ready(s) && (t == running_of(s) || is_aborted(t)))
        || (is_running(s) && (is_exec_failure(t) || is_aborted(t)
            || t == JobState::Always(JobStateAlways::FinishedSuccess)
            || t == JobState::Output(JobStateOutput::FinishedSuccess)
            || t == JobState::Ephemeral(JobStateEphemeral::FinishedSuccessNotReadyForCleanup)))
        || (s == JobState::Output(JobStateOutput::FinishedSkipped)
            && t == JobState::Output(JobStateOutput::FinishedUpstreamFailure))
        || (s == JobState::Ephemeral(JobStateEphemeral::FinishedSuccessNotReadyForCleanup)
            && (t == JobState::Ephemeral(JobStateEphemeral::FinishedSuccessReadyForCleanup)
                || t == JobState::Ephemeral(JobStateEphemeral::FinishedSuccessSkipCleanup)))
        || (s == JobState::Ephemeral(JobStateEphemeral::FinishedSuccessReadyForCleanup)
            && t == JobState::Ephemeral(JobStateEphemeral::FinishedSuccessCleanedUp)))
}

proof fn lemma_lc_order(s: JobState, t: JobState, u: JobState)
    ensures
        lc_le(s, s),
        lc_step(s, t) ==> lc_le(s, t),
        lc_le(s, t) && lc_le(t, u) ==> lc_le(s, u),
        lc_le(s, t) && lc_le(t, s) ==> s == t || (pre_offer(s) && pre_offer(t)),
{
}

/// consequences of the order that the property statements need
proof fn lemma_lc_consequences(s: JobState, t: JobState)
    requires lc_le(s, t),
    ensures
        same_kind(s, t),
        finished(s) ==> finished(t),
        ran_ok(s) ==> ran_ok(t),
        ran_ok(s) ==> !failed(t),
        is_ready(t) && s != t ==> pre_offer(s),
        upfailed(t) ==> !is_ready(s) && !is_running(s) && !ran_ok(s),
        is_running(t) ==> pre_offer(s) || is_ready(s) || s == t,
{
}

// ---- the evaluator's abstract view and representation invariant
spec fn ids_wf(jobs: Seq<NodeInfo>, m: Map<String, usize>) -> bool {
    &&& forall|i: int| 0 <= i < jobs.len() ==> #[trigger] m.contains_key(jobs[i].job_id)
            && m[jobs[i].job_id] == i && valid_id(jobs[i].job_id@)
    &&& forall|k: String| #[trigger] m.contains_key(k) ==> m[k] < jobs.len() && jobs[m[k] as int].job_id == k
}

spec fn ready_set_wf(jobs: Seq<NodeInfo>, ready: Set<String>, m: Map<String, usize>) -> bool {
    &&& forall|i: int| 0 <= i < jobs.len() ==> (is_ready(#[trigger] jobs[i].state) <==> ready.contains(jobs[i].job_id))
    &&& forall|k: String| #[trigger] ready.contains(k) ==> m.contains_key(k)
}

spec fn cleanup_set_wf(jobs: Seq<NodeInfo>, cleanup: Set<String>, m: Map<String, usize>) -> bool {
    &&& forall|i: int| 0 <= i < jobs.len() ==> (
            (#[trigger] jobs[i].state == JobState::Ephemeral(JobStateEphemeral::FinishedSuccessReadyForCleanup))
            <==> cleanup.contains(jobs[i].job_id))
    &&& forall|k: String| #[trigger] cleanup.contains(k) ==> m.contains_key(k)
}

/// W5: history_output against state
spec fn out_wf_one(j: NodeInfo) -> bool {
    &&& (ran_ok(j.state) || j.state == JobState::Output(JobStateOutput::FinishedSkipped) ==> j.history_output is Some)
    &&& (!finished(j.state) || is_exec_failure(j.state) || is_aborted(j.state)
            || j.state == JobState::Always(JobStateAlways::FinishedUpstreamFailure)
            || j.state == JobState::Ephemeral(JobStateEphemeral::FinishedUpstreamFailure)
        ==> j.history_output is None)
}
spec fn out_wf(jobs: Seq<NodeInfo>) -> bool {
    forall|i: int| 0 <= i < jobs.len() ==> out_wf_one(#[trigger] jobs[i])
}

/// two-state relation of every mutating operation on the job table
spec fn jobs_step(a: Seq<NodeInfo>, b: Seq<NodeInfo>) -> bool {
    &&& a.len() == b.len()
    &&& forall|i: int| 0 <= i < a.len() ==> (#[trigger] b[i]).job_id == a[i].job_id
    &&& forall|i: int| 0 <= i < a.len() ==> lc_le(a[i].state, (#[trigger] b[i]).state)
    &&& forall|i: int| 0 <= i < a.len() ==> (a[i].history_output is Some ==> (#[trigger] b[i]).history_output == a[i].history_output)
}

proof fn lemma_jobs_step_refl(a: Seq<NodeInfo>)
    ensures jobs_step(a, a),
{
    assert forall|i: int| 0 <= i < a.len() implies lc_le(a[i].state, a[i].state) by { lemma_lc_order(a[i].state, a[i].state, a[i].state); }
}

proof fn lemma_jobs_step_trans(a: Seq<NodeInfo>, b: Seq<NodeInfo>, c: Seq<NodeInfo>)
    requires jobs_step(a, b), jobs_step(b, c),
    ensures jobs_step(a, c),
{
    assert forall|i: int| 0 <= i < a.len() implies lc_le(a[i].state, (#[trigger] c[i]).state) by {
        assert(lc_le(a[i].state, b[i].state));
        lemma_lc_order(a[i].state, b[i].state, c[i].state);
    }
    assert forall|i: int| 0 <= i < a.len() implies (#[trigger] c[i]).job_id == a[i].job_id by {
        assert(b[i].job_id == a[i].job_id);
    }
    assert forall|i: int| 0 <= i < a.len() implies (a[i].history_output is Some ==> (#[trigger] c[i]).history_output == a[i].history_output) by {
        assert(a[i].history_output is Some ==> b[i].history_output == a[i].history_output);
    }
}

impl<T: PPGEvaluatorStrategy> PPGEvaluator<T> {
    spec fn started(&self) -> bool { !(self.already_started is NotStarted) }

    /// representation invariant without the "queue is empty" clause (holds between signals)
    spec fn wf_core(&self) -> bool {
        &&& ids_wf(self.jobs@, self.job_id_to_node_idx@)
        &&& edges_in_range(&self.dag, self.jobs@.len())
        &&& ready_set_wf(self.jobs@, self.jobs_ready_to_run@, self.job_id_to_node_idx@)
        &&& cleanup_set_wf(self.jobs@, self.jobs_ready_for_cleanup@, self.job_id_to_node_idx@)
        &&& out_wf(self.jobs@)
        &&& (self.already_started is Finished ==> forall|i: int| 0 <= i < self.jobs@.len() ==> finished(#[trigger] self.jobs@[i].state))
    }

    /// representation invariant between public calls
    spec fn wf(&self) -> bool {
        &&& self.wf_core()
        &&& self.signals@.len() == 0
    }

    /// every observable aspect equal (C20).  Vec/HashMap are compared by view: Verus has no
    /// extensional equality on the containers themselves.
    spec fn obs_eq(&self, o: &Self) -> bool {
        &&& self.jobs@ =~= o.jobs@
        &&& self.dag == o.dag
        &&& self.job_id_to_node_idx@ =~= o.job_id_to_node_idx@
        &&& self.history@ =~= o.history@
        &&& self.already_started == o.already_started
        &&& self.jobs_ready_to_run@ =~= o.jobs_ready_to_run@
        &&& self.jobs_ready_for_cleanup@ =~= o.jobs_ready_for_cleanup@
        &&& self.topo == o.topo
        &&& self.signals@ =~= o.signals@
        &&& self.gen == o.gen
    }

    spec fn idx_of(&self, id: Seq<char>) -> int {
        idx_of_seq(self.jobs@, id)
    }

    spec fn knows(&self, id: Seq<char>) -> bool {
        exists|i: int| 0 <= i < self.jobs@.len() && #[trigger] self.jobs@[i].job_id@ == id
    }
}

spec fn idx_of_seq(jobs: Seq<NodeInfo>, id: Seq<char>) -> int {
    choose|i: int| 0 <= i < jobs.len() && jobs[i].job_id@ == id
}

/// looking a known id up in job_id_to_node_idx yields its index
proof fn lemma_lookup(jobs: Seq<NodeInfo>, m: Map<String, usize>, id: Seq<char>)
    requires
        ids_wf(jobs, m),
        exists|i: int| 0 <= i < jobs.len() && #[trigger] jobs[i].job_id@ == id,
    ensures
        0 <= idx_of_seq(jobs, id) < jobs.len(),
        jobs[idx_of_seq(jobs, id)].job_id@ == id,
        forall|s: String| #![trigger m.contains_key(s)] s@ == id ==> m.contains_key(s) && m[s] == idx_of_seq(jobs, id),
        forall|i: int| 0 <= i < jobs.len() && #[trigger] jobs[i].job_id@ == id ==> i == idx_of_seq(jobs, id),
{
    broadcast use group_verif_axioms;
    let g = idx_of_seq(jobs, id);
    assert(m.contains_key(jobs[g].job_id));
    assert forall|s: String| s@ == id implies #[trigger] m.contains_key(s) && m[s] == g by {
        assert(s == jobs[g].job_id);
    }
    assert forall|i: int| 0 <= i < jobs.len() && #[trigger] jobs[i].job_id@ == id implies i == g by {
        assert(jobs[i].job_id == jobs[g].job_id);
        assert(m.contains_key(jobs[i].job_id));
    }
}

/// `post` is `pre` with only entry n changed, id kept
spec fn one_changed(pre: Seq<NodeInfo>, post: Seq<NodeInfo>, n: int) -> bool {
    &&& 0 <= n < pre.len()
    &&& post.len() == pre.len()
    &&& forall|k: int| 0 <= k < pre.len() && k != n ==> #[trigger] post[k] == pre[k]
    &&& post[n].job_id == pre[n].job_id
}

proof fn lemma_ids_after_write(pre: Seq<NodeInfo>, post: Seq<NodeInfo>, m: Map<String, usize>, n: int)
    requires ids_wf(pre, m), one_changed(pre, post, n),
    ensures ids_wf(post, m),
{
    assert forall|i: int| 0 <= i < post.len() implies #[trigger] m.contains_key(post[i].job_id)
            && m[post[i].job_id] == i && valid_id(post[i].job_id@) by {
        assert(post[i].job_id == pre[i].job_id);
        assert(m.contains_key(pre[i].job_id));
    }
    assert forall|k: String| #[trigger] m.contains_key(k) implies m[k] < post.len() && post[m[k] as int].job_id == k by {
        assert(post[m[k] as int].job_id == pre[m[k] as int].job_id);
    }
}

/// ids are unique
proof fn lemma_ids_unique(jobs: Seq<NodeInfo>, m: Map<String, usize>, i: int, k: int)
    requires ids_wf(jobs, m), 0 <= i < jobs.len(), 0 <= k < jobs.len(), jobs[i].job_id == jobs[k].job_id,
    ensures i == k,
{
    assert(m.contains_key(jobs[i].job_id));
    assert(m.contains_key(jobs[k].job_id));
}

proof fn lemma_ready_set_after_write(pre: Seq<NodeInfo>, post: Seq<NodeInfo>, m: Map<String, usize>,
    ready: Set<String>, ready2: Set<String>, n: int)
    requires
        ids_wf(pre, m), ready_set_wf(pre, ready, m), one_changed(pre, post, n),
        is_ready(pre[n].state) == is_ready(post[n].state) ==> ready2 == ready,
        is_ready(pre[n].state) && !is_ready(post[n].state) ==> ready2 == ready.remove(pre[n].job_id),
        !is_ready(pre[n].state) && is_ready(post[n].state) ==> ready2 == ready.insert(pre[n].job_id),
    ensures ready_set_wf(post, ready2, m),
{
    assert forall|i: int| 0 <= i < post.len() implies (is_ready(#[trigger] post[i].state) <==> ready2.contains(post[i].job_id)) by {
        if i != n {
            assert(post[i] == pre[i]);
            assert(is_ready(pre[i].state) <==> ready.contains(pre[i].job_id));
            if pre[i].job_id == pre[n].job_id { lemma_ids_unique(pre, m, i, n); }
        } else {
            assert(is_ready(pre[n].state) <==> ready.contains(pre[n].job_id));
        }
    }
    assert forall|k: String| #[trigger] ready2.contains(k) implies m.contains_key(k) by {
        if k == pre[n].job_id { assert(m.contains_key(pre[n].job_id)); } else { assert(ready.contains(k)); }
    }
}

spec fn is_rfc(s: JobState) -> bool {
    s == JobState::Ephemeral(JobStateEphemeral::FinishedSuccessReadyForCleanup)
}

proof fn lemma_cleanup_set_after_write(pre: Seq<NodeInfo>, post: Seq<NodeInfo>, m: Map<String, usize>,
    cl: Set<String>, cl2: Set<String>, n: int)
    requires
        ids_wf(pre, m), cleanup_set_wf(pre, cl, m), one_changed(pre, post, n),
        is_rfc(pre[n].state) == is_rfc(post[n].state) ==> cl2 == cl,
        is_rfc(pre[n].state) && !is_rfc(post[n].state) ==> cl2 == cl.remove(pre[n].job_id),
        !is_rfc(pre[n].state) && is_rfc(post[n].state) ==> cl2 == cl.insert(pre[n].job_id),
    ensures cleanup_set_wf(post, cl2, m),
{
    assert forall|i: int| 0 <= i < post.len() implies (is_rfc(#[trigger] post[i].state) <==> cl2.contains(post[i].job_id)) by {
        if i != n {
            assert(post[i] == pre[i]);
            assert(is_rfc(pre[i].state) <==> cl.contains(pre[i].job_id));
            if pre[i].job_id == pre[n].job_id { lemma_ids_unique(pre, m, i, n); }
        } else {
            assert(is_rfc(pre[n].state) <==> cl.contains(pre[n].job_id));
        }
    }
    assert forall|k: String| #[trigger] cl2.contains(k) implies m.contains_key(k) by {
        if k == pre[n].job_id { assert(m.contains_key(pre[n].job_id)); } else { assert(cl.contains(k)); }
    }
}

proof fn lemma_out_after_write(pre: Seq<NodeInfo>, post: Seq<NodeInfo>, n: int)
    requires out_wf(pre), one_changed(pre, post, n), out_wf_one(post[n]),
    ensures out_wf(post),
{
    assert forall|i: int| 0 <= i < post.len() implies out_wf_one(#[trigger] post[i]) by {
        if i != n { assert(post[i] == pre[i]); assert(out_wf_one(pre[i])); }
    }
}

proof fn lemma_step_after_write(pre: Seq<NodeInfo>, post: Seq<NodeInfo>, n: int)
    requires one_changed(pre, post, n), lc_le(pre[n].state, post[n].state),
        pre[n].history_output is Some ==> post[n].history_output == pre[n].history_output,
    ensures jobs_step(pre, post),
{
    assert forall|i: int| 0 <= i < pre.len() implies lc_le(pre[i].state, (#[trigger] post[i]).state) by {
        if i != n { assert(post[i] == pre[i]); lemma_lc_order(pre[i].state, pre[i].state, pre[i].state); }
    }
    assert forall|i: int| 0 <= i < pre.len() implies (#[trigger] post[i]).job_id == pre[i].job_id by {
        if i != n { assert(post[i] == pre[i]); }
    }
    assert forall|i: int| 0 <= i < pre.len() implies (pre[i].history_output is Some ==> (#[trigger] post[i]).history_output == pre[i].history_output) by {
        if i != n { assert(post[i] == pre[i]); }
    }
}

proof fn lemma_all_finished_after_write(pre: Seq<NodeInfo>, post: Seq<NodeInfo>, n: int)
    requires one_changed(pre, post, n), finished(pre[n].state) ==> finished(post[n].state),
        forall|i: int| 0 <= i < pre.len() ==> finished(#[trigger] pre[i].state),
    ensures forall|i: int| 0 <= i < post.len() ==> finished(#[trigger] post[i].state),
{
    assert forall|i: int| 0 <= i < post.len() implies finished(#[trigger] post[i].state) by {
        if i != n { assert(post[i] == pre[i]); }
    }
}
