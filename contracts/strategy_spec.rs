    // A-strategy: the three callbacks are deterministic, side-effect free, total functions
    spec fn present(&self, query: Seq<char>) -> bool;
    spec fn altered(&self, up: Seq<char>, down: Seq<char>, last: Seq<char>, cur: Seq<char>) -> bool;
    spec fn input_list(&self, node_idx: usize, dag: &GraphType, jobs: Seq<NodeInfo>) -> Seq<char>;
