// ---------------------------------------------------------------------------------------------
// TRUSTED BASE.  Everything in this file is assumed, not proved (see DESIGN.md §4).
// ---------------------------------------------------------------------------------------------

// ---- R3: panics and assertions become proof obligations ("this site is unreachable")
#[verifier::external_body]
fn verif_panic() -> !
    requires false,
{
    panic!()
}

fn verif_assert(c: bool)
    requires c,
{
}

// ---- R4: message text is not modelled
#[verifier::external_body]
fn verif_msg() -> (r: String) {
    String::new()
}

// ---- R4: the three history-key shapes, uninterpreted but injective / disjoint (A-keys)
pub uninterp spec fn key_edge(a: Seq<char>, b: Seq<char>) -> Seq<char>;
pub uninterp spec fn key_inputs(a: Seq<char>) -> Seq<char>;
pub uninterp spec fn key_suffix(b: Seq<char>) -> Seq<char>;
/// ids accepted as job ids by the key encoding: non-empty, no "!!!" inside, not starting/ending with '!'
pub uninterp spec fn valid_id(a: Seq<char>) -> bool;
pub uninterp spec fn str_contains_sep(a: Seq<char>) -> bool;   // a.contains("!!!")
pub uninterp spec fn str_contains_multi(a: Seq<char>) -> bool; // a.contains(":::")

pub trait VStr {
    spec fn vs(&self) -> Seq<char>;
}
impl VStr for String {
    open spec fn vs(&self) -> Seq<char> { self@ }
}
impl VStr for str {
    open spec fn vs(&self) -> Seq<char> { self@ }
}
impl<T: VStr + ?Sized> VStr for &T {
    open spec fn vs(&self) -> Seq<char> { (**self).vs() }
}

#[verifier::external_body]
fn verif_key_edge<A: VStr + ?Sized, B: VStr + ?Sized>(a: &A, b: &B) -> (r: String)
    ensures r@ == key_edge(a.vs(), b.vs()),
{
    unimplemented!()
}
#[verifier::external_body]
fn verif_key_inputs<A: VStr + ?Sized>(a: &A) -> (r: String)
    ensures r@ == key_inputs(a.vs()),
{
    unimplemented!()
}
#[verifier::external_body]
fn verif_key_suffix<A: VStr + ?Sized>(a: &A) -> (r: String)
    ensures r@ == key_suffix(a.vs()),
{
    unimplemented!()
}

pub broadcast axiom fn axiom_keys_edge_injective(a: Seq<char>, b: Seq<char>, c: Seq<char>, d: Seq<char>)
    requires valid_id(a), valid_id(b), valid_id(c), valid_id(d),
        #[trigger] key_edge(a, b) == #[trigger] key_edge(c, d),
    ensures a == c, b == d;

pub broadcast axiom fn axiom_keys_inputs_injective(a: Seq<char>, c: Seq<char>)
    requires valid_id(a), valid_id(c), #[trigger] key_inputs(a) == #[trigger] key_inputs(c),
    ensures a == c;

pub broadcast axiom fn axiom_keys_disjoint_edge_inputs(a: Seq<char>, b: Seq<char>, c: Seq<char>)
    requires valid_id(a), valid_id(b), valid_id(c),
    ensures #[trigger] key_edge(a, b) != #[trigger] key_inputs(c);

pub broadcast axiom fn axiom_keys_disjoint_edge_id(a: Seq<char>, b: Seq<char>)
    requires valid_id(a), valid_id(b),
    ensures !valid_id(#[trigger] key_edge(a, b)), str_contains_sep(key_edge(a, b));

pub broadcast axiom fn axiom_keys_disjoint_inputs_id(a: Seq<char>)
    requires valid_id(a),
    ensures !valid_id(#[trigger] key_inputs(a)), str_contains_sep(key_inputs(a));

pub broadcast axiom fn axiom_valid_id_no_sep(a: Seq<char>)
    requires #[trigger] valid_id(a),
    ensures !str_contains_sep(a), a.len() > 0;

// ---- A-string-keys: String as a hash key
pub broadcast axiom fn axiom_string_ext(s1: String, s2: String)
    requires #[trigger] s1@ == #[trigger] s2@,
    ensures s1 == s2;

/// every sequence of chars is the content of a String (chars are Unicode scalar values)
pub uninterp spec fn str_of(v: Seq<char>) -> String;
pub broadcast axiom fn axiom_str_of(v: Seq<char>)
    ensures (#[trigger] str_of(v))@ == v;

pub broadcast axiom fn axiom_string_key_model()
    ensures #[trigger] vstd::std_specs::hash::obeys_key_model::<String>();

pub broadcast axiom fn axiom_string_contains_borrowed<V>(m: Map<String, V>, k: &str)
    ensures #[trigger] vstd::std_specs::hash::contains_borrowed_key::<String, V, str>(m, k)
        <==> exists|s: String| #![trigger m.contains_key(s)] s@ == k@ && m.contains_key(s);

pub broadcast axiom fn axiom_string_maps_borrowed<V>(m: Map<String, V>, k: &str, v: V)
    ensures #[trigger] vstd::std_specs::hash::maps_borrowed_key_to_value::<String, V, str>(m, k, v)
        <==> exists|s: String| #![trigger m.contains_key(s)] s@ == k@ && m.contains_key(s) && m[s] == v;

pub broadcast axiom fn axiom_string_set_contains_borrowed(m: Set<String>, k: &str)
    ensures #[trigger] vstd::std_specs::hash::set_contains_borrowed_key::<String, str>(m, k)
        <==> exists|s: String| #![trigger m.contains(s)] s@ == k@ && m.contains(s);

pub broadcast axiom fn axiom_string_sets_differ_borrowed(a: Set<String>, b: Set<String>, k: &str)
    ensures #[trigger] vstd::std_specs::hash::sets_differ_by_borrowed_key::<String, str>(a, b, k)
        <==> exists|s: String| #![trigger a.contains(s)] s@ == k@ && b == a.remove(s);

pub broadcast group group_verif_axioms {
    axiom_keys_edge_injective,
    axiom_keys_inputs_injective,
    axiom_keys_disjoint_edge_inputs,
    axiom_keys_disjoint_edge_id,
    axiom_keys_disjoint_inputs_id,
    axiom_valid_id_no_sep,
    axiom_string_ext,
    axiom_str_of,
    axiom_string_key_model,
    axiom_string_contains_borrowed,
    axiom_string_maps_borrowed,
    axiom_string_set_contains_borrowed,
    axiom_string_sets_differ_borrowed,
}

// ---- R7: petgraph::graphmap::GraphMap<usize, EdgeInfo, Directed> as a finite map (A-petgraph)
#[derive(Clone, Copy, PartialEq, Eq)]
pub enum Direction {
    Outgoing,
    Incoming,
}

#[verifier::external_body]
pub struct GraphType {
    _p: core::marker::PhantomData<()>,
}

pub open spec fn nbr_seq(dag: &GraphType, n: usize, d: Direction, s: Seq<usize>) -> bool {
    &&& s.no_duplicates()
    &&& s.len() < 0x7fff_ffff  // A-arith: a node has fewer than 2^31 neighbours (i32 counters in the engine)
    &&& forall|m: usize| #![trigger s.contains(m)] #![trigger dag.is_nbr(n, d, m)]
        s.contains(m) <==> dag.is_nbr(n, d, m)
}

pub open spec fn all_edges_seq(dag: &GraphType, s: Seq<(usize, usize, &EdgeInfo)>) -> bool {
    &&& forall|k: int| 0 <= k < s.len() ==> dag.has_edge((#[trigger] s[k]).0, s[k].1) && *s[k].2 == dag.edges()[(s[k].0, s[k].1)]
    &&& forall|k: int, l: int| 0 <= k < l < s.len() ==> !((#[trigger] s[k]).0 == (#[trigger] s[l]).0 && s[k].1 == s[l].1)
    &&& forall|a: usize, b: usize| #![trigger dag.has_edge(a, b)] dag.has_edge(a, b) ==> exists|k: int| 0 <= k < s.len() && (#[trigger] s[k]).0 == a && s[k].1 == b
}

impl GraphType {
    /// no directed cycle (the properties quantify over acyclic graphs; a precondition of event_startup)
    pub uninterp spec fn acyclic(&self) -> bool;
    pub uninterp spec fn nodes_set(&self) -> Set<usize>;
    pub uninterp spec fn edges(&self) -> Map<(usize, usize), EdgeInfo>;

    pub open spec fn has_edge(&self, a: usize, b: usize) -> bool {
        self.edges().contains_key((a, b))
    }

    pub open spec fn is_nbr(&self, n: usize, d: Direction, m: usize) -> bool {
        match d {
            Direction::Outgoing => self.has_edge(n, m),
            Direction::Incoming => self.has_edge(m, n),
        }
    }

    #[verifier::external_body]
    pub fn new() -> (r: Self)
        ensures r.nodes_set() == Set::<usize>::empty(), r.edges() == Map::<(usize, usize), EdgeInfo>::empty(),
    {
        unimplemented!()
    }

    #[verifier::external_body]
    pub fn add_node(&mut self, n: usize) -> (r: usize)
        ensures
            final(self).nodes_set() == old(self).nodes_set().insert(n),
            final(self).edges() == old(self).edges(),
    {
        unimplemented!()
    }

    #[verifier::external_body]
    pub fn add_edge(&mut self, a: usize, b: usize, w: EdgeInfo) -> (r: Option<EdgeInfo>)
        ensures
            final(self).nodes_set() == old(self).nodes_set().insert(a).insert(b),
            final(self).edges() == old(self).edges().insert((a, b), w),
    {
        unimplemented!()
    }

    #[verifier::external_body]
    pub fn remove_node(&mut self, n: usize) -> (r: bool)
        ensures
            final(self).nodes_set() == old(self).nodes_set().remove(n),
            forall|a: usize, b: usize| #![trigger final(self).edges().contains_key((a, b))]
                final(self).edges().contains_key((a, b))
                <==> (old(self).edges().contains_key((a, b)) && a != n && b != n),
            forall|a: usize, b: usize| #![trigger final(self).edges()[(a, b)]]
                final(self).edges().contains_key((a, b)) ==> final(self).edges()[(a, b)] == old(self).edges()[(a, b)],
            old(self).acyclic() ==> final(self).acyclic(),
    {
        unimplemented!()
    }

    #[verifier::external_body]
    pub fn neighbors_directed(&self, n: usize, d: Direction) -> (r: std::vec::IntoIter<usize>)
        ensures
            r.obeys_prophetic_iter_laws(),
            r.decrease().is_some(),
            nbr_seq(self, n, d, r.remaining()),
    {
        unimplemented!()
    }

    #[verifier::external_body]
    pub fn edge_weight_mut(&mut self, a: usize, b: usize) -> (r: Option<&mut EdgeInfo>)
        ensures
            r is Some <==> old(self).has_edge(a, b),
            r is Some ==> *r.unwrap() == old(self).edges()[(a, b)]
                && final(self).edges() == old(self).edges().insert((a, b), *final(r.unwrap())),
            r is None ==> final(self).edges() == old(self).edges(),
            final(self).nodes_set() == old(self).nodes_set(),
            final(self).acyclic() == old(self).acyclic(),
    {
        unimplemented!()
    }

    /// every node exactly once
    #[verifier::external_body]
    pub fn nodes(&self) -> (r: std::vec::IntoIter<usize>)
        ensures
            r.obeys_prophetic_iter_laws(),
            r.decrease().is_some(),
            r.remaining().no_duplicates(),
            forall|m: usize| #![trigger r.remaining().contains(m)] r.remaining().contains(m) <==> self.nodes_set().contains(m),
    {
        unimplemented!()
    }

    /// every edge exactly once, with its weight
    #[verifier::external_body]
    pub fn all_edges(&self) -> (r: std::vec::IntoIter<(usize, usize, &EdgeInfo)>)
        ensures
            r.obeys_prophetic_iter_laws(),
            r.decrease().is_some(),
            all_edges_seq(self, r.remaining()),
    {
        unimplemented!()
    }

    #[verifier::external_body]
    pub fn edge_weight(&self, a: usize, b: usize) -> (r: Option<&EdgeInfo>)
        ensures
            r is Some <==> self.has_edge(a, b),
            r is Some ==> *r.unwrap() == self.edges()[(a, b)],
    {
        unimplemented!()
    }
}

// ---- A-rank: a finite acyclic graph has a depth and a height function (longest path from a root / to a leaf), which
//      depend only on which dependencies exist.  Used only as termination measures of the recursive graph walks.
pub uninterp spec fn topo_depth(dag: &GraphType, n: usize) -> nat;
pub uninterp spec fn topo_height(dag: &GraphType, n: usize) -> nat;

pub axiom fn axiom_rank_edge(dag: &GraphType, a: usize, b: usize)
    requires dag.acyclic(), dag.has_edge(a, b),
    ensures topo_depth(dag, a) < topo_depth(dag, b), topo_height(dag, b) < topo_height(dag, a);

/// acyclicity depends only on which dependencies exist (broadcast form, triggered by the frame predicate's pieces)
pub broadcast axiom fn axiom_acyclic_dom(d0: &GraphType, d1: &GraphType)
    requires d0.nodes_set() == d1.nodes_set(), #[trigger] d0.edges().dom() =~= #[trigger] d1.edges().dom(),
    ensures d0.acyclic() == d1.acyclic();

pub axiom fn axiom_rank_dom(d0: &GraphType, d1: &GraphType)
    requires d0.nodes_set() == d1.nodes_set(), d0.edges().dom() =~= d1.edges().dom(),
    ensures d0.acyclic() == d1.acyclic(),
        forall|n: usize| #![trigger topo_depth(d1, n)] topo_depth(d0, n) == topo_depth(d1, n),
        forall|n: usize| #![trigger topo_height(d1, n)] topo_height(d0, n) == topo_height(d1, n);

// ---- R7: std::collections::VecDeque<T> as a sequence (A-vecdeque)
#[verifier::external_body]
#[verifier::accept_recursive_types(T)]
pub struct VecDeque<T> {
    inner: std::collections::VecDeque<T>,
}

impl<T> View for VecDeque<T> {
    type V = Seq<T>;
    uninterp spec fn view(&self) -> Seq<T>;
}

impl<T> VecDeque<T> {
    #[verifier::external_body]
    pub fn new() -> (r: Self)
        ensures r@ == Seq::<T>::empty(),
    {
        unimplemented!()
    }

    #[verifier::external_body]
    pub fn push_back(&mut self, x: T)
        ensures final(self)@ == old(self)@.push(x),
    {
        unimplemented!()
    }

    #[verifier::external_body]
    pub fn extend(&mut self, v: Vec<T>)
        ensures final(self)@ == old(self)@ + v@,
    {
        unimplemented!()
    }

    #[verifier::external_body]
    pub fn is_empty(&self) -> (r: bool)
        ensures r == (self@.len() == 0),
    {
        unimplemented!()
    }

    /// `drain(..)`: hands out every element in order and leaves the queue empty
    #[verifier::external_body]
    pub fn drain(&mut self, range: core::ops::RangeFull) -> (r: std::vec::IntoIter<T>)
        ensures
            final(self)@ == Seq::<T>::empty(),
            r.obeys_prophetic_iter_laws(),
            r.decrease().is_some(),
            r.remaining() == old(self)@,
    {
        unimplemented!()
    }
}

// ---- strings (A-keys): str::contains / split_once / == are uninterpreted; their meaning on the
//      three key shapes is axiomatised above / below.
pub uninterp spec fn pat_view<P>(p: P) -> Seq<char>;
pub broadcast axiom fn axiom_pat_str(p: &str)
    ensures #[trigger] pat_view::<&str>(p) == p@;
pub broadcast axiom fn axiom_pat_string(p: &String)
    ensures #[trigger] pat_view::<&String>(p) == p@;

pub uninterp spec fn str_contains(s: Seq<char>, p: Seq<char>) -> bool;
pub uninterp spec fn str_split_once(s: Seq<char>, p: Seq<char>) -> Option<(Seq<char>, Seq<char>)>;
pub uninterp spec fn str_ends_with(s: Seq<char>, p: Seq<char>) -> bool;

pub open spec fn SEP() -> Seq<char> { "!!!"@ }
pub open spec fn MULTI() -> Seq<char> { ":::"@ }
pub broadcast proof fn lemma_sep_lit()
    ensures #[trigger] SEP() == "!!!"@, #[trigger] MULTI() == ":::"@,
{
}

pub assume_specification<P: core::str::pattern::Pattern>[ str::contains::<P> ](s: &str, p: P) -> (r: bool)
    ensures r == str_contains(s@, pat_view(p));

pub assume_specification<'a, P: core::str::pattern::Pattern>[ str::split_once::<P> ](s: &'a str, p: P)
    -> (r: Option<(&'a str, &'a str)>)
    ensures
        r is Some <==> str_split_once(s@, pat_view(p)) is Some,
        r is Some ==> r.unwrap().0@ == str_split_once(s@, pat_view(p)).unwrap().0
            && r.unwrap().1@ == str_split_once(s@, pat_view(p)).unwrap().1;

/// Display text of a String is the string itself (vstd has the same axiom for str) (A-keys)
pub broadcast axiom fn axiom_to_string_string(t: &String, s: String)
    ensures #[trigger] vstd::string::to_string_from_display_ensures::<String>(t, s) <==> s@ == t@;

pub assume_specification[ <String as PartialEq<str>>::eq ](a: &String, b: &str) -> (r: bool)
    ensures r == (a@ == b@);

pub assume_specification[ <str as PartialEq<str>>::eq ](a: &str, b: &str) -> (r: bool)
    ensures r == (a@ == b@);

// std functions a change to the engine may plausibly start using (their std meaning, assumed)
pub assume_specification<T>[ core::mem::replace::<T> ](dest: &mut T, src: T) -> (r: T)
    ensures *final(dest) == src, r == *old(dest);

pub broadcast axiom fn axiom_sep_contains(s: Seq<char>)
    ensures #[trigger] str_contains(s, "!!!"@) == str_contains_sep(s);
pub broadcast axiom fn axiom_multi_contains(s: Seq<char>)
    ensures #[trigger] str_contains(s, ":::"@) == str_contains_multi(s);
pub broadcast axiom fn axiom_split_edge(a: Seq<char>, b: Seq<char>)
    requires valid_id(a), valid_id(b),
    ensures #[trigger] str_split_once(key_edge(a, b), "!!!"@) == Some((a, b));
pub broadcast axiom fn axiom_split_inputs(a: Seq<char>)
    requires valid_id(a),
    ensures #[trigger] str_split_once(key_inputs(a), "!!!"@) == Some((a, Seq::<char>::empty()));
pub broadcast axiom fn axiom_split_some(s: Seq<char>)
    ensures (#[trigger] str_split_once(s, "!!!"@)) is Some <==> str_contains_sep(s);   // std: split_once finds the pattern iff it occurs

pub broadcast group group_verif_str_axioms {
    axiom_suffix_contains_sep,
    axiom_parts_strings,
    axiom_cow_str_deref,
    axiom_to_string_string,
    axiom_pat_str,
    axiom_pat_string,
    axiom_sep_contains,
    axiom_multi_contains,
    axiom_split_edge,
    axiom_split_inputs,
    axiom_split_some,
}

// ---- R6: `X.drain().filter(closure).collect()` on a HashMap<String, String> (A-adapters)
#[verifier::external_body]
fn verif_drain_filter_collect<F: Fn(&(String, String)) -> bool>(m: &mut HashMap<String, String>, f: F)
    -> (r: HashMap<String, String>)
    requires
        forall|kv: &(String, String)| old(m)@.contains_key(kv.0) && old(m)@[kv.0] == kv.1 ==> #[trigger] f.requires((kv,)),
    ensures
        forall|k: String| #[trigger] r@.contains_key(k) ==> old(m)@.contains_key(k) && r@[k] == old(m)@[k]
            && f.ensures((&(k, r@[k]),), true),
        forall|k: String| #[trigger] old(m)@.contains_key(k) && !r@.contains_key(k)
            ==> f.ensures((&(k, old(m)@[k]),), false),
{
    unimplemented!()
}

// ---- R8(a): the part -> owning present job map built at the top of new_history
/// the output names a (multi-output) job id stands for: the pieces between ":::"
pub uninterp spec fn parts(id: Seq<char>) -> Set<Seq<char>>;

pub broadcast axiom fn axiom_parts_single(id: Seq<char>)
    requires !str_contains_multi(id),
    ensures #[trigger] parts(id) == set![id];

/// R12: `id.split(":::")` - its items are exactly parts(id) (this defines `parts`)
#[verifier::external_body]
fn verif_split_multi<'a>(s: &'a str) -> (r: std::vec::IntoIter<&'a str>)
    ensures
        r.obeys_prophetic_iter_laws(),
        r.decrease().is_some(),
        forall|p: Seq<char>| #![trigger parts(s@).contains(p)] parts(s@).contains(p)
            <==> exists|k: int| 0 <= k < r.remaining().len() && (#[trigger] r.remaining()[k])@ == p,
{
    unimplemented!()
}

pub assume_specification[ <String as PartialEq<str>>::ne ](a: &String, b: &str) -> (r: bool)
    ensures r == (a@ != b@);

// ---- &str as a hash key (the part -> owning job map of new_history is a HashMap<&str, String>)
pub broadcast axiom fn axiom_str_ext(a: &str, b: &str)
    requires #[trigger] a@ == #[trigger] b@,
    ensures a == b;
pub broadcast axiom fn axiom_strref_key_model()
    ensures #[trigger] vstd::std_specs::hash::obeys_key_model::<&str>();
pub broadcast axiom fn axiom_strref_contains_borrowed<'a, V>(m: Map<&'a str, V>, k: &str)
    ensures #[trigger] vstd::std_specs::hash::contains_borrowed_key::<&'a str, V, str>(m, k)
        <==> exists|s: &'a str| #![trigger m.contains_key(s)] s@ == k@ && m.contains_key(s);
pub broadcast axiom fn axiom_strref_maps_borrowed<'a, V>(m: Map<&'a str, V>, k: &str, v: V)
    ensures #[trigger] vstd::std_specs::hash::maps_borrowed_key_to_value::<&'a str, V, str>(m, k, v)
        <==> exists|s: &'a str| #![trigger m.contains_key(s)] s@ == k@ && m.contains_key(s) && m[s] == v;

/// every sequence of chars is the content of some str
pub uninterp spec fn strref_of(v: Seq<char>) -> &'static str;
pub broadcast axiom fn axiom_strref_of(v: Seq<char>)
    ensures (#[trigger] strref_of(v))@ == v;

pub broadcast group group_verif_strref_axioms {
    axiom_strref_of,
    axiom_str_ext,
    axiom_strref_key_model,
    axiom_strref_contains_borrowed,
    axiom_strref_maps_borrowed,
}

// ---- A-derive: #[derive(PartialEq)] on the engine's enums is structural equality.
//      (Cross-checked on the untouched source by the Kani full-domain harness, tier thorough.)
impl vstd::std_specs::cmp::PartialEqSpecImpl for JobKind {
    open spec fn obeys_eq_spec() -> bool { true }
    open spec fn eq_spec(&self, other: &JobKind) -> bool { *self == *other }
}
impl vstd::std_specs::cmp::PartialEqSpecImpl for ValidationStatus {
    open spec fn obeys_eq_spec() -> bool { true }
    open spec fn eq_spec(&self, other: &ValidationStatus) -> bool { *self == *other }
}
impl vstd::std_specs::cmp::PartialEqSpecImpl for Required {
    open spec fn obeys_eq_spec() -> bool { true }
    open spec fn eq_spec(&self, other: &Required) -> bool { *self == *other }
}
impl vstd::std_specs::cmp::PartialEqSpecImpl for JobStateAlways {
    open spec fn obeys_eq_spec() -> bool { true }
    open spec fn eq_spec(&self, other: &JobStateAlways) -> bool { *self == *other }
}
impl vstd::std_specs::cmp::PartialEqSpecImpl for JobStateOutput {
    open spec fn obeys_eq_spec() -> bool { true }
    open spec fn eq_spec(&self, other: &JobStateOutput) -> bool { *self == *other }
}
impl vstd::std_specs::cmp::PartialEqSpecImpl for JobStateEphemeral {
    open spec fn obeys_eq_spec() -> bool { true }
    open spec fn eq_spec(&self, other: &JobStateEphemeral) -> bool { *self == *other }
}
impl vstd::std_specs::cmp::PartialEqSpecImpl for JobState {
    open spec fn obeys_eq_spec() -> bool { true }
    open spec fn eq_spec(&self, other: &JobState) -> bool { *self == *other }
}
impl vstd::std_specs::cmp::PartialEqSpecImpl for SignalKind {
    open spec fn obeys_eq_spec() -> bool { true }
    open spec fn eq_spec(&self, other: &SignalKind) -> bool { *self == *other }
}

// ---- R6 (rename matcher, R8b): string sets of output names, key iteration (A-adapters)
/// parts(id) as a set of Strings
pub uninterp spec fn parts_strings(id: Seq<char>) -> Set<String>;
pub broadcast axiom fn axiom_parts_strings(id: Seq<char>, p: String)
    ensures #[trigger] parts_strings(id).contains(p) <==> parts(id).contains(p@);

/// `E.split(":::").map(|x| x.to_string()).collect::<HashSet<String>>()`
#[verifier::external_body]
fn verif_parts_set<A: VStr + ?Sized>(s: &A) -> (r: HashSet<String>)
    ensures r@ == parts_strings(s.vs()),
{
    unimplemented!()
}

/// `A.intersection(&B).count()`
#[verifier::external_body]
fn verif_intersection_count(a: &HashSet<String>, b: &HashSet<String>) -> (r: usize)
    ensures r == a@.intersect(b@).len(),
{
    unimplemented!()
}

/// `for k in H.keys()`: every key exactly once, in an unspecified order
#[verifier::external_body]
fn verif_map_keys<'a>(m: &'a HashMap<String, String>) -> (r: std::vec::IntoIter<&'a String>)
    ensures
        r.obeys_prophetic_iter_laws(),
        r.decrease().is_some(),
        forall|i: int| 0 <= i < r.remaining().len() ==> m@.contains_key(*#[trigger] r.remaining()[i]),
        forall|k: String| #![trigger m@.contains_key(k)] m@.contains_key(k) ==> exists|i: int| 0 <= i < r.remaining().len() && *(#[trigger] r.remaining()[i]) == k,
{
    unimplemented!()
}

pub assume_specification<P: core::str::pattern::Pattern>[ str::ends_with::<P> ](s: &str, p: P) -> (r: bool)
    where for<'a> P::Searcher<'a>: core::str::pattern::ReverseSearcher<'a>,
    ensures r == str_ends_with(s@, pat_view(p));

/// a string that ends with "!!!<something>" contains "!!!"
pub broadcast axiom fn axiom_suffix_contains_sep(s: Seq<char>, d: Seq<char>)
    requires #[trigger] str_ends_with(s, key_suffix(d)),
    ensures str_contains_sep(s);

// ---- R8(b): result of try_finding_renamed_multi_output_job (body not verified)
pub uninterp spec fn renamed_id(missing_up: Seq<char>, down: Seq<char>, h: Map<String, String>) -> Option<Seq<char>>;

pub assume_specification<'a>[ <Cow<'a, str> as From<&'a String>>::from ](s: &'a String) -> (r: Cow<'a, str>)
    ensures r@ == s@;

pub uninterp spec fn cow_deref_spec<'a, 'b, B: ?Sized + ToOwned>(s: &'b Cow<'a, B>) -> &'b B;

pub assume_specification<'a, 'b, B: ?Sized + ToOwned>[ <Cow<'a, B> as core::ops::Deref>::deref ](s: &'b Cow<'a, B>) -> (r: &'b B)
    ensures r == cow_deref_spec(s);

// A-std: `impl AsRef<T> for Cow<'_, T> { fn as_ref(&self) -> &T { self } }` (not used by the current source; present so that a change
// using it gets a verdict)
pub assume_specification<'a, 'b, B: ?Sized + ToOwned>[ <Cow<'a, B> as core::convert::AsRef<B>>::as_ref ](s: &'b Cow<'a, B>) -> (r: &'b B)
    ensures r == cow_deref_spec(s);

pub broadcast axiom fn axiom_cow_str_deref<'a, 'b>(s: &'b Cow<'a, str>)
    ensures (#[trigger] cow_deref_spec::<str>(s))@ == s@;

// ---- A-retain: Vec::retain keeps exactly the elements the predicate accepts (order is kept by
//      the real function; the contract only states membership, which is all the proofs use)
pub assume_specification<T, A: core::alloc::Allocator, F: FnMut(&T) -> bool>[ Vec::<T, A>::retain::<F> ](v: &mut Vec<T, A>, f: F)
    requires
        forall|x: &T| #[trigger] f.requires((x,)),
    ensures
        final(v)@.len() <= old(v)@.len(),
        forall|k: int| 0 <= k < final(v)@.len() ==> old(v)@.contains(#[trigger] final(v)@[k]) && f.ensures((&final(v)@[k],), true),
        forall|k: int| 0 <= k < old(v)@.len() && !f.ensures((&old(v)@[k],), false) ==> final(v)@.contains(#[trigger] old(v)@[k]);

/// the items a `HashSet` iterator will yield are members of the set (vstd states the converse, no duplicates and the
/// length; this is the pigeonhole step)
proof fn lemma_rem_in_set<K>(rem: Seq<&K>, s: Set<K>)
    requires rem.no_duplicates(), rem.len() == s.len(), s.finite(), forall|k: K| s.contains(k) ==> rem.contains(&k),
    ensures forall|i: int| 0 <= i < rem.len() ==> s.contains(*(#[trigger] rem[i])),
{
    let m = rem.map_values(|k: &K| *k);
    let t: Set<K> = m.to_set();
    assert(m.no_duplicates()) by {
        assert forall|i: int, j: int| 0 <= i < m.len() && 0 <= j < m.len() && i != j implies m[i] != m[j] by {
            assert(rem[i] != rem[j]);
        }
    }
    m.unique_seq_to_set();
    assert(s.subset_of(t)) by {
        assert forall|k: K| s.contains(k) implies t.contains(k) by {
            assert(rem.contains(&k));
            let i = choose|i: int| 0 <= i < rem.len() && rem[i] == &k;
            assert(*rem[i] == k);
            assert(m[i] == k);
            assert(m.contains(k));
        }
    }
    vstd::set_lib::lemma_subset_equality(s, t);
    assert forall|i: int| 0 <= i < rem.len() implies s.contains(*(#[trigger] rem[i])) by {
        assert(m[i] == *rem[i]);
        assert(t.contains(m[i]));
    }
}

/// R6: `SET.iter().next()`.  Not an assumption: the body is that very expression with the iterator named, verified
/// against vstd's specification of `HashSet::iter` / `Iter::next`.
fn verif_set_first<'a>(s: &'a HashSet<String>) -> (r: Option<&'a String>)
    ensures
        match r { Some(id) => s@.contains(*id), None => s@ =~= Set::<String>::empty() },
{
    broadcast use group_verif_axioms;
    let mut verif_rt = s.iter();
    proof { assert(s@.finite()); lemma_rem_in_set(verif_rt.remaining(), s@); }
    let ghost rem = verif_rt.remaining();
    let next_job = verif_rt.next();
    assert(next_job is Some ==> rem.len() > 0 && next_job.unwrap() == rem[0]);
    next_job
}

// ---- A-clone: HashSet<String>::clone returns an equal set (vstd has no usable spec for it)
#[verifier::external_body]
fn verif_clone_string_set(s: &HashSet<String>) -> (r: HashSet<String>)
    ensures r@ == s@,
{
    s.clone()
}

/// petgraph::algo::toposort(&dag, None): Ok with every node exactly once iff the graph is acyclic
/// (the order itself is not used by any contract)
#[verifier::external_body]
fn verif_toposort(dag: &GraphType) -> (r: Result<Vec<usize>, ()>)
    ensures
        r is Ok <==> dag.acyclic(),
        r is Ok ==> r.unwrap()@.no_duplicates()
            && forall|m: usize| #![trigger r.unwrap()@.contains(m)] r.unwrap()@.contains(m) <==> dag.nodes_set().contains(m),
{
    unimplemented!()
}

// ---- R6 adapter chains on node indices (A-adapters): std semantics of filter / map(|x| *x) / collect
/// `ITER.filter(f)` as an iterator: yields exactly the elements of ITER that f accepts, in order
#[verifier::external_body]
fn verif_filter_iter<F: Fn(&usize) -> bool>(it: std::vec::IntoIter<usize>, f: F) -> (r: std::vec::IntoIter<usize>)
    requires
        forall|x: &usize| it.remaining().contains(*x) ==> #[trigger] f.requires((x,)),
    ensures
        r.obeys_prophetic_iter_laws(),
        r.decrease().is_some(),
        forall|k: int| 0 <= k < r.remaining().len() ==> it.remaining().contains(#[trigger] r.remaining()[k])
            && f.ensures((&r.remaining()[k],), true),
        forall|x: usize| it.remaining().contains(x) && !f.ensures((&x,), false) ==> #[trigger] r.remaining().contains(x),
        it.remaining().no_duplicates() ==> r.remaining().no_duplicates(),
{
    unimplemented!()
}

/// `ITER.filter(f).collect::<HashSet<usize>>()`
#[verifier::external_body]
fn verif_filter_collect_set<F: Fn(&usize) -> bool>(it: std::vec::IntoIter<usize>, f: F) -> (r: HashSet<usize>)
    requires
        forall|x: &usize| it.remaining().contains(*x) ==> #[trigger] f.requires((x,)),
    ensures
        forall|x: usize| #[trigger] r@.contains(x) ==> it.remaining().contains(x) && f.ensures((&x,), true),
        forall|x: usize| it.remaining().contains(x) && !f.ensures((&x,), false) ==> #[trigger] r@.contains(x),
        r@.finite(),
{
    unimplemented!()
}

/// `SET.iter().map(|x| *x).filter(f).collect::<Vec<usize>>()`
#[verifier::external_body]
fn verif_set_filter_collect_vec<F: Fn(&usize) -> bool>(s: &HashSet<usize>, f: F) -> (r: Vec<usize>)
    requires
        forall|x: &usize| s@.contains(*x) ==> #[trigger] f.requires((x,)),
    ensures
        forall|k: int| 0 <= k < r@.len() ==> s@.contains(#[trigger] r@[k]) && f.ensures((&r@[k],), true),
        forall|x: usize| s@.contains(x) && !f.ensures((&x,), false) ==> #[trigger] r@.contains(x),
        r@.no_duplicates(),
{
    unimplemented!()
}

/// R6: `JOBS.iter().filter_map(f).collect::<HashSet<String>>()` (A-adapters)
#[verifier::external_body]
fn verif_filter_map_collect_set<F: Fn(&NodeInfo) -> Option<String>>(jobs: &Vec<NodeInfo>, f: F) -> (r: HashSet<String>)
    requires
        forall|j: &NodeInfo| #[trigger] f.requires((j,)),
    ensures
        forall|x: String| #[trigger] r@.contains(x) ==> exists|k: int| 0 <= k < jobs@.len() && f.ensures((&jobs@[k],), Some(x)),
        forall|k: int| 0 <= k < jobs@.len() && !f.ensures((&#[trigger] jobs@[k],), None)
            ==> exists|x: String| r@.contains(x) && f.ensures((&jobs@[k],), Some(x)),
{
    unimplemented!()
}

