// Builds the inputs of the Kani cross-check from the repository's current sources:
//  * from_lib.rs   : the error enum and the strategy trait copied out of lib.rs (as the replay crate does)
//  * engine_incl.rs: `mod engine { include!(<repo>/src/engine.rs); include!(tables.rs); include!(harness.rs); }`
//                    (the harness sits inside the module so that it reaches the private classification functions)
//  * tables.rs     : the state tables of /verif/contracts/spec.rs between the KANI-TABLES markers, with
//                    `spec fn` turned into `fn` - the very text Verus proves the code against
use std::{env, fs, path::Path};

fn grab(src: &str, start_pat: &str) -> String {
    let i = src.find(start_pat).unwrap_or_else(|| panic!("pattern {:?} not found in lib.rs", start_pat));
    let mut a = i;
    loop {
        let before = &src[..a];
        let line_start = before.trim_end_matches('\n').rfind('\n').map(|x| x + 1).unwrap_or(0);
        let line = &src[line_start..a];
        if line.trim_start().starts_with("#[") && a > 0 {
            a = line_start;
        } else {
            break;
        }
    }
    let mut depth = 0i32;
    let mut end = i;
    for (k, c) in src[i..].char_indices() {
        if c == '{' {
            depth += 1;
        } else if c == '}' {
            depth -= 1;
            if depth == 0 {
                end = i + k + 1;
                break;
            }
        }
    }
    src[a..end].to_string()
}

fn main() {
    let repo = env::var("VERIF_REPO").unwrap_or_else(|_| "/repo".to_string());
    let here = env::var("CARGO_MANIFEST_DIR").unwrap();
    let out = env::var("OUT_DIR").unwrap();
    let lib = fs::read_to_string(format!("{}/src/lib.rs", repo)).unwrap();
    let mut s = String::new();
    s.push_str("use thiserror::Error;\n");
    s.push_str(&grab(&lib, "pub enum PPGEvaluatorError"));
    s.push_str("\n");
    s.push_str(&grab(&lib, "pub trait PPGEvaluatorStrategy"));
    s.push_str("\n");
    fs::write(Path::new(&out).join("from_lib.rs"), s).unwrap();

    let spec = fs::read_to_string(format!("{}/../contracts/spec.rs", here)).unwrap();
    let a = spec.find("// KANI-TABLES-BEGIN").expect("KANI-TABLES-BEGIN marker");
    let b = spec.find("// KANI-TABLES-END").expect("KANI-TABLES-END marker");
    let tables = spec[a..b].replace("spec fn ", "fn ");
    fs::write(Path::new(&out).join("tables.rs"), tables).unwrap();

    let eng = format!("{}/src/engine.rs", repo);
    fs::write(
        Path::new(&out).join("engine_incl.rs"),
        format!(
            "#[allow(dead_code, unused)]\nmod engine {{\ninclude!(\"{}\");\ninclude!(\"{}/tables.rs\");\ninclude!(\"{}/src/harness.rs\");\n}}\n",
            eng, out, here
        ),
    )
    .unwrap();
    println!("cargo:rerun-if-changed={}/src/lib.rs", repo);
    println!("cargo:rerun-if-changed={}", eng);
    println!("cargo:rerun-if-changed={}/../contracts/spec.rs", here);
    println!("cargo:rerun-if-changed={}/src/harness.rs", here);
    println!("cargo:rerun-if-env-changed=VERIF_REPO");
}
