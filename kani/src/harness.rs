// (included inside `mod engine`, after engine.rs and the tables generated from contracts/spec.rs)

/// exhaustive, wildcard-free: adding a variant to the source makes this fail to compile (=> UNDECIDED, exit 2)
fn vs_code(v: ValidationStatus) -> u8 {
    match v {
        ValidationStatus::Unknown => 0,
        ValidationStatus::Validated => 1,
        ValidationStatus::Invalidated => 2,
    }
}
fn vs_of(c: u8) -> ValidationStatus {
    match c {
        0 => ValidationStatus::Unknown,
        1 => ValidationStatus::Validated,
        _ => ValidationStatus::Invalidated,
    }
}

pub const N_STATES: u8 = 35;

fn st_code(s: JobState) -> u8 {
    match s {
        JobState::Always(x) => match x {
            JobStateAlways::Undetermined => 0,
            JobStateAlways::ReadyToRun => 1,
            JobStateAlways::Running => 2,
            JobStateAlways::FinishedSuccess => 3,
            JobStateAlways::FinishedFailure => 4,
            JobStateAlways::FinishedUpstreamFailure => 5,
            JobStateAlways::FinishedAborted => 6,
        },
        JobState::Output(x) => match x {
            JobStateOutput::NotReady(v) => 7 + vs_code(v),
            JobStateOutput::ReadyToRun => 10,
            JobStateOutput::Running => 11,
            JobStateOutput::FinishedSuccess => 12,
            JobStateOutput::FinishedFailure => 13,
            JobStateOutput::FinishedUpstreamFailure => 14,
            JobStateOutput::FinishedSkipped => 15,
            JobStateOutput::FinishedAborted => 16,
        },
        JobState::Ephemeral(x) => match x {
            JobStateEphemeral::NotReady(v) => 17 + vs_code(v),
            JobStateEphemeral::ReadyButDelayed => 20,
            JobStateEphemeral::ReadyToRun(v) => 21 + vs_code(v),
            JobStateEphemeral::Running(v) => 24 + vs_code(v),
            JobStateEphemeral::FinishedSuccessNotReadyForCleanup => 27,
            JobStateEphemeral::FinishedSuccessReadyForCleanup => 28,
            JobStateEphemeral::FinishedSuccessCleanedUp => 29,
            JobStateEphemeral::FinishedSuccessSkipCleanup => 30,
            JobStateEphemeral::FinishedFailure => 31,
            JobStateEphemeral::FinishedUpstreamFailure => 32,
            JobStateEphemeral::FinishedSkipped => 33,
            JobStateEphemeral::FinishedAborted => 34,
        },
    }
}

fn st_of(c: u8) -> JobState {
    match c {
        0 => JobState::Always(JobStateAlways::Undetermined),
        1 => JobState::Always(JobStateAlways::ReadyToRun),
        2 => JobState::Always(JobStateAlways::Running),
        3 => JobState::Always(JobStateAlways::FinishedSuccess),
        4 => JobState::Always(JobStateAlways::FinishedFailure),
        5 => JobState::Always(JobStateAlways::FinishedUpstreamFailure),
        6 => JobState::Always(JobStateAlways::FinishedAborted),
        7..=9 => JobState::Output(JobStateOutput::NotReady(vs_of(c - 7))),
        10 => JobState::Output(JobStateOutput::ReadyToRun),
        11 => JobState::Output(JobStateOutput::Running),
        12 => JobState::Output(JobStateOutput::FinishedSuccess),
        13 => JobState::Output(JobStateOutput::FinishedFailure),
        14 => JobState::Output(JobStateOutput::FinishedUpstreamFailure),
        15 => JobState::Output(JobStateOutput::FinishedSkipped),
        16 => JobState::Output(JobStateOutput::FinishedAborted),
        17..=19 => JobState::Ephemeral(JobStateEphemeral::NotReady(vs_of(c - 17))),
        20 => JobState::Ephemeral(JobStateEphemeral::ReadyButDelayed),
        21..=23 => JobState::Ephemeral(JobStateEphemeral::ReadyToRun(vs_of(c - 21))),
        24..=26 => JobState::Ephemeral(JobStateEphemeral::Running(vs_of(c - 24))),
        27 => JobState::Ephemeral(JobStateEphemeral::FinishedSuccessNotReadyForCleanup),
        28 => JobState::Ephemeral(JobStateEphemeral::FinishedSuccessReadyForCleanup),
        29 => JobState::Ephemeral(JobStateEphemeral::FinishedSuccessCleanedUp),
        30 => JobState::Ephemeral(JobStateEphemeral::FinishedSuccessSkipCleanup),
        31 => JobState::Ephemeral(JobStateEphemeral::FinishedFailure),
        32 => JobState::Ephemeral(JobStateEphemeral::FinishedUpstreamFailure),
        33 => JobState::Ephemeral(JobStateEphemeral::FinishedSkipped),
        _ => JobState::Ephemeral(JobStateEphemeral::FinishedAborted),
    }
}

/// one row of the comparison between the code's classification and the statement's table
pub fn table_row(c: u8) -> (bool, bool, bool, bool, bool, bool) {
    let s = st_of(c);
    (s.is_finished(), finished(s), s.is_failed(), failed(s), s.is_upstream_failure(), upfailed(s))
}

pub fn state_name(c: u8) -> String {
    format!("{:?}", st_of(c))
}

#[cfg(kani)]
mod proofs {
    use super::*;

    fn any_code() -> u8 {
        let c: u8 = kani::any();
        kani::assume(c < 35);
        c
    }

    /// the enumeration is a bijection between 0..35 and the states (with the wildcard-free st_code: all states)
    #[kani::proof]
    fn enumeration_is_bijective() {
        let c = any_code();
        assert!(st_code(st_of(c)) == c);
    }

    /// A-derive: the derived `==` on JobState is structural equality
    #[kani::proof]
    fn derived_eq_is_structural() {
        let a = any_code();
        let b = any_code();
        assert!((st_of(a) == st_of(b)) == (a == b));
    }

    #[kani::proof]
    fn table_is_finished() {
        let s = st_of(any_code());
        assert!(s.is_finished() == finished(s));
    }

    #[kani::proof]
    fn table_is_failed() {
        let s = st_of(any_code());
        assert!(s.is_failed() == failed(s));
    }

    #[kani::proof]
    fn table_is_upstream_failure() {
        let s = st_of(any_code());
        assert!(s.is_upstream_failure() == upfailed(s));
    }
}
