// Concrete replay on the real code: evaluates the engine's classification functions on the given state codes
// (default: all 35 states) and prints one JSON line per state whose classification differs from the statement's table.
fn main() {
    let args: Vec<u8> = std::env::args().skip(1).filter_map(|a| a.parse().ok()).collect();
    let codes: Vec<u8> = if args.is_empty() { (0..ppg2_kani::N_STATES).collect() } else { args };
    for c in codes {
        let (f, tf, fl, tfl, uf, tuf) = ppg2_kani::table_row(c);
        let mut bad = Vec::new();
        if f != tf {
            bad.push(format!("is_finished()={} but the statement's table says {}", f, tf));
        }
        if fl != tfl {
            bad.push(format!("is_failed()={} but the statement's table says {}", fl, tfl));
        }
        if uf != tuf {
            bad.push(format!("is_upstream_failure()={} but the statement's table says {}", uf, tuf));
        }
        if !bad.is_empty() {
            println!(
                "{{\"code\": {}, \"state\": \"{}\", \"mismatch\": \"{}\"}}",
                c,
                ppg2_kani::state_name(c),
                bad.join("; ")
            );
        }
    }
}
