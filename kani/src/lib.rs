// Kani cross-check (thorough tier, and counterexamples for failed table obligations).
// Loop-free harnesses over the complete, finite domain of the engine's state enums: a passing harness is a
// complete proof, not a bounded one.  The engine text is the repository's, included untouched.
include!(concat!(env!("OUT_DIR"), "/from_lib.rs"));
include!(concat!(env!("OUT_DIR"), "/engine_incl.rs"));

pub fn table_row(c: u8) -> (bool, bool, bool, bool, bool, bool) {
    engine::table_row(c)
}
pub fn state_name(c: u8) -> String {
    engine::state_name(c)
}
pub const N_STATES: u8 = 35;
