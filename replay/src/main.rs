// Witness scenarios executed against the repository's real engine.rs (path-included, untouched).
// Each witness prints one JSON line: {"witness": .., "fails": bool, "detail": ..}
// "fails" = the real code contradicts the property statement on this concrete input.
// The witness library never decides a property; it attaches a concrete failing input to an
// obligation the verifier already reported (DESIGN §3.2).
use std::cell::RefCell;
use std::collections::{HashMap, HashSet};
use std::rc::Rc;

include!(concat!(env!("OUT_DIR"), "/from_lib.rs"));
include!(concat!(env!("OUT_DIR"), "/engine_path.rs"));

use engine::{JobKind, PPGEvaluator};

#[derive(Clone)]
struct Strat {
    present: Rc<RefCell<HashSet<String>>>,
    /// comparison ignores everything after '@' (an equivalence relation on records)
    ignore_after_at: bool,
}

impl PPGEvaluatorStrategy for Strat {
    fn output_already_present(&self, query: &str) -> bool {
        self.present.borrow().contains(query)
    }
    fn is_history_altered(&self, _u: &str, _d: &str, last: &str, cur: &str) -> bool {
        if self.ignore_after_at {
            last.split('@').next() != cur.split('@').next()
        } else {
            last != cur
        }
    }
    fn get_input_list(&self, node_idx: engine::NodeIndex, dag: &engine::GraphType, jobs: &[engine::NodeInfo]) -> String {
        let mut names = Vec::new();
        for u in dag.neighbors_directed(node_idx, petgraph::Direction::Incoming) {
            names.push(jobs[u].get_job_id().to_string());
        }
        names.sort();
        names.join("\n")
    }
}

#[derive(Clone)]
struct World {
    nodes: Vec<(String, JobKind)>,
    edges: Vec<(String, String)>, // (upstream, downstream)
    history: HashMap<String, String>,
    present: HashSet<String>,
    ignore_after_at: bool,
}

#[derive(Default, Debug)]
struct Outcome {
    started: Vec<String>,
    errors: Vec<String>,
    history: Option<HashMap<String, String>>,
    finished: bool,
    ready_after: Vec<String>,
    panicked: bool,
}

impl World {
    fn new() -> Self {
        World { nodes: vec![], edges: vec![], history: HashMap::new(), present: HashSet::new(), ignore_after_at: false }
    }
    fn node(&mut self, id: &str, k: JobKind) -> &mut Self {
        self.nodes.push((id.to_string(), k));
        self
    }
    fn edge(&mut self, up: &str, down: &str) -> &mut Self {
        self.edges.push((up.to_string(), down.to_string()));
        self
    }
    fn build(&self) -> (PPGEvaluator<Strat>, Rc<RefCell<HashSet<String>>>) {
        let present = Rc::new(RefCell::new(self.present.clone()));
        let s = Strat { present: present.clone(), ignore_after_at: self.ignore_after_at };
        let mut g = PPGEvaluator::new_with_history(self.history.clone(), s);
        for (id, k) in &self.nodes {
            g.add_node(id, *k);
        }
        for (u, d) in &self.edges {
            g.depends_on(d, u);
        }
        (g, present)
    }
    /// run to completion with a deterministic schedule (alphabetical, one at a time);
    /// `output(job)` is what a job reports; jobs in `fail` fail; Output jobs that succeed become present
    fn run(&mut self, output: &dyn Fn(&str) -> String, fail: &[&str]) -> Outcome {
        let (mut g, present) = self.build();
        let mut o = Outcome::default();
        if let Err(e) = g.event_startup() {
            o.errors.push(format!("{:?}", e));
            return o;
        }
        let mut guard = 0;
        while !g.is_finished() {
            guard += 1;
            if guard > 10000 {
                o.errors.push("stall".into());
                break;
            }
            let mut cl: Vec<String> = g.query_ready_for_cleanup().into_iter().collect();
            cl.sort();
            for c in cl {
                if let Err(e) = g.event_job_cleanup_done(&c) {
                    o.errors.push(format!("{:?}", e));
                }
            }
            let mut ready: Vec<String> = g.query_ready_to_run().into_iter().collect();
            ready.sort();
            if ready.is_empty() {
                if !g.is_finished() {
                    o.errors.push("stall: nothing ready, not finished".into());
                }
                break;
            }
            let j = ready[0].clone();
            if let Err(e) = g.event_now_running(&j) {
                o.errors.push(format!("{:?}", e));
                break;
            }
            o.started.push(j.clone());
            let r = if fail.contains(&j.as_str()) {
                g.event_job_finished_failure(&j)
            } else {
                let kind = self.nodes.iter().find(|n| n.0 == j).unwrap().1;
                if kind == JobKind::Output {
                    present.borrow_mut().insert(j.clone());
                }
                g.event_job_finished_success(&j, output(&j))
            };
            if let Err(e) = r {
                o.errors.push(format!("{:?}", e));
                if o.errors.last().unwrap().contains("InternalError") {
                    break;
                }
            }
        }
        o.finished = g.is_finished();
        if o.finished {
            match g.new_history() {
                Ok(h) => {
                    o.history = Some(h.clone());
                    self.history = h;
                }
                Err(e) => o.errors.push(format!("{:?}", e)),
            }
        }
        self.present = present.borrow().clone();
        o
    }
}

fn report(w: &str, fails: bool, detail: String) {
    let d = detail.replace('\\', "\\\\").replace('"', "'").replace('\n', " ");
    println!("{{\"witness\": \"{}\", \"fails\": {}, \"detail\": \"{}\"}}", w, fails, d);
}

// ---- F1 (C10/C05/C17): abort while a job is offered leaves it in the ready set
fn f1() {
    let mut w = World::new();
    w.node("A", JobKind::Output).node("B", JobKind::Output);
    let (mut g, _p) = w.build();
    g.event_startup().unwrap();
    g.event_now_running("A").unwrap();
    g.abort_remaining().unwrap();
    let fin = g.is_finished();
    let mut ready: Vec<String> = g.query_ready_to_run().into_iter().collect();
    ready.sort();
    report("F1", fin && !ready.is_empty(), format!("after abort_remaining: is_finished={} query_ready_to_run={:?}", fin, ready));
}

// ---- F2 (C15): two records compared textually instead of by the configured comparison
fn f2() {
    let mut w = World::new();
    w.ignore_after_at = true;
    w.node("U", JobKind::Output).node("E", JobKind::Ephemeral).node("D", JobKind::Output).node("D2", JobKind::Output);
    w.edge("U", "E").edge("E", "D").edge("E", "D2");
    let o1 = w.run(&|j| format!("{}@t1", j), &[]);
    // run 2: D absent, D2's output missing -> E re-executes and reports E@t2 (equivalent under the comparison)
    let mut w2 = w.clone();
    w2.nodes.retain(|n| n.0 != "D");
    w2.edges.retain(|e| e.1 != "D");
    w2.present.remove("D2");
    let o2 = w2.run(&|j| format!("{}@t2", j), &[]);
    // run 3: D is back, everything present
    let mut w3 = w.clone();
    w3.history = w2.history.clone();
    w3.present = w2.present.clone();
    w3.present.insert("D".into());
    let o3 = w3.run(&|j| format!("{}@t3", j), &[]);
    let fails = o3.started.contains(&"D".to_string());
    report("F2", fails, format!("run1 started {:?}; run2 (D absent) started {:?}; run3 (D back, nothing altered under the comparison) started {:?} errors {:?}", o1.started, o2.started, o3.started, o3.errors));
}

// ---- F3 (C06): ephemeral that failed keeps incoming edge records -> validates without own record
fn f3() {
    let mut w = World::new();
    w.node("U", JobKind::Output).node("E", JobKind::Ephemeral).node("D", JobKind::Output);
    w.edge("U", "E").edge("E", "D");
    let _o1 = w.run(&|j| format!("{}-out", j), &[]);
    let mut w2 = w.clone();
    w2.node("D2", JobKind::Output).edge("E", "D2");
    let o2 = w2.run(&|j| format!("{}-out", j), &["E"]);
    let mut w3 = w.clone();
    w3.history = w2.history.clone();
    w3.present = w2.present.clone();
    let o3 = w3.run(&|j| format!("{}-out", j), &[]);
    let fails = o3.errors.iter().any(|e| e.contains("InternalError"));
    report("F3", fails, format!("run2 (E fails) started {:?}; run3 errors {:?}", o2.started, o3.errors));
}

// ---- F4 (C06/C07): a skipped Output later turned upstream-failed propagates to a started downstream
fn f4() {
    let mut w = World::new();
    w.node("E", JobKind::Ephemeral).node("U", JobKind::Output).node("D", JobKind::Output).node("W", JobKind::Output).node("X", JobKind::Output);
    w.edge("E", "U").edge("U", "D").edge("E", "W").edge("X", "W");
    let _ = w.run(&|j| format!("{}-out", j), &[]);
    w.present.remove("D");
    w.present.remove("X");
    let (mut g, present) = w.build();
    let mut log: Vec<String> = vec![];
    let mut err: Option<String> = None;
    if let Err(e) = g.event_startup() { err = Some(format!("{:?}", e)); }
    if err.is_none() {
        let ready0: Vec<String> = { let mut r: Vec<String> = g.query_ready_to_run().into_iter().collect(); r.sort(); r };
        log.push(format!("ready after startup {:?}", ready0));
        if ready0.contains(&"D".to_string()) && ready0.contains(&"X".to_string()) {
            let _ = g.event_now_running("D");
            let _ = g.event_now_running("X");
            present.borrow_mut().insert("X".into());
            if let Err(e) = g.event_job_finished_success("X", "X-changed".into()) { err = Some(format!("{:?}", e)); }
            let ready1: Vec<String> = { let mut r: Vec<String> = g.query_ready_to_run().into_iter().collect(); r.sort(); r };
            log.push(format!("ready after X changed {:?}", ready1));
            if err.is_none() && ready1.contains(&"E".to_string()) {
                let _ = g.event_now_running("E");
                if let Err(e) = g.event_job_finished_failure("E") { err = Some(format!("{:?}", e)); }
            }
        }
    }
    let fails = err.as_ref().map(|e| e.contains("InternalError")).unwrap_or(false);
    report("F4", fails, format!("{} ; error: {:?}", log.join("; "), err));
}

// ---- F8 / O8 (C02): a delayed Ephemeral is skipped although a downstream Ephemeral still needs it
fn f8() {
    let mut w = World::new();
    w.node("E1", JobKind::Ephemeral).node("E2", JobKind::Ephemeral).node("D", JobKind::Output).node("X", JobKind::Always).node("W", JobKind::Output);
    w.edge("E1", "E2").edge("E2", "D").edge("X", "D").edge("E1", "W");
    let _ = w.run(&|j| format!("{}-v1", j), &[]);
    // second evaluation: everything present, X (Always) reports a changed output
    let (mut g, present) = w.build();
    let mut log: Vec<String> = vec![];
    let mut bad: Option<String> = None;
    if let Err(e) = g.event_startup() { log.push(format!("startup error {:?}", e)); }
    let mut executed: HashSet<String> = HashSet::new();
    let mut guard = 0;
    while !g.is_finished() && guard < 100 {
        guard += 1;
        for c in g.query_ready_for_cleanup() { let _ = g.event_job_cleanup_done(&c); }
        let mut ready: Vec<String> = g.query_ready_to_run().into_iter().collect();
        ready.sort();
        if ready.is_empty() { break; }
        let j = ready[0].clone();
        // C02: every Ephemeral direct upstream of an offered job has been executed in this evaluation
        for (u, d) in w.edges.iter() {
            if *d == j {
                let kind = w.nodes.iter().find(|n| n.0 == *u).unwrap().1;
                if kind == JobKind::Ephemeral && !executed.contains(u) && bad.is_none() {
                    bad = Some(format!("{} offered although its Ephemeral upstream {} was not executed", j, u));
                }
            }
        }
        if g.event_now_running(&j).is_err() { break; }
        executed.insert(j.clone());
        log.push(j.clone());
        let out = if j == "X" { "X-v2".to_string() } else { format!("{}-v1", j) };
        if w.nodes.iter().find(|n| n.0 == j).unwrap().1 == JobKind::Output { present.borrow_mut().insert(j.clone()); }
        if let Err(e) = g.event_job_finished_success(&j, out) { log.push(format!("error {:?}", e)); break; }
    }
    report("F8", bad.is_some(), format!("second evaluation started {:?}; {}", log, bad.unwrap_or_default()));
}

// ---- F5 (C18): records of a renamed multi-output job survive
fn f5() {
    let mut w = World::new();
    w.node("A:::B", JobKind::Output).node("C", JobKind::Output);
    w.edge("A:::B", "C");
    let _ = w.run(&|j| format!("{}-out", j), &[]);
    let mut w2 = World::new();
    w2.node("A:::B:::X", JobKind::Output).node("C", JobKind::Output);
    w2.edge("A:::B:::X", "C");
    w2.history = w.history.clone();
    w2.present = w.present.clone();
    let o2 = w2.run(&|j| format!("{}-out", j), &[]);
    let h = o2.history.unwrap_or_default();
    let mut left: Vec<&String> = h.keys().filter(|k| k.as_str() == "A:::B" || k.starts_with("A:::B!!!")).collect();
    left.sort();
    report("F5", !left.is_empty(), format!("graph now has A:::B:::X instead of A:::B; records of the superseded id still returned: {:?}", left));
}

// ---- F7 (C09): never-started jobs marked aborted lose their own records
fn f7() {
    let mut w = World::new();
    w.node("X", JobKind::Always).node("B", JobKind::Output);
    w.edge("X", "B");
    let _ = w.run(&|j| format!("{}-out", j), &[]);
    let before = w.history.clone();
    let (mut g, _p) = w.build();
    g.event_startup().unwrap();
    g.event_now_running("X").unwrap();
    g.abort_remaining().unwrap();
    let fin = g.is_finished();
    let h = g.new_history().unwrap_or_default();
    let lost: Vec<&str> = ["B", "B!!!"].iter().copied().filter(|k| before.contains_key(*k) && !h.contains_key(*k)).collect();
    report("F7", fin && !lost.is_empty(), format!("abort while X runs; B was never started; records lost from the returned history: {:?}", lost));
}


// ---------------------------------------------------------------------------------------------
// Sanity sweep for repairs (NOT a check and not evidence for any property: random scenarios are used only to
// make sure a `fix:` commit does not introduce stalls or internal errors before it is proposed).
// usage: ppg2_replay sanity <scenarios> <seed>
struct Lcg(u64);
impl Lcg {
    fn next(&mut self) -> u64 {
        self.0 = self.0.wrapping_mul(6364136223846793005).wrapping_add(1442695040888963407);
        self.0 >> 33
    }
    fn below(&mut self, n: u64) -> u64 {
        self.next() % n
    }
    fn chance(&mut self, pct: u64) -> bool {
        self.below(100) < pct
    }
}

#[derive(Default)]
struct SanityCounts {
    evaluations: u64,
    internal_errors: u64,
    panics: u64,
    stalls: u64,
    eph_upstream_not_executed: u64,
    c07_isolation: u64,
    c07_cause: u64,
    first: Vec<String>,
}

/// d and everything depending on it (transitively) is Ephemeral
fn eph_only_closure(w: &World, d: &str) -> bool {
    let mut todo = vec![d.to_string()];
    let mut seen: HashSet<String> = HashSet::new();
    while let Some(x) = todo.pop() {
        if !seen.insert(x.clone()) { continue; }
        if w.nodes.iter().find(|n| n.0 == x).unwrap().1 != JobKind::Ephemeral { return false; }
        for (u, dd) in &w.edges { if *u == x { todo.push(dd.clone()); } }
    }
    true
}

fn sanity_one(rng: &mut Lcg, c: &mut SanityCounts, tag: u64) {
    let n = 3 + rng.below(6) as usize;
    let mut w = World::new();
    let mut kinds = vec![];
    for i in 0..n {
        let k = match rng.below(100) {
            0..=49 => JobKind::Output,
            50..=84 => JobKind::Ephemeral,
            _ => JobKind::Always,
        };
        kinds.push(k);
        w.node(&format!("J{}", i), k);
    }
    for i in 0..n {
        for j in (i + 1)..n {
            if rng.chance(35) {
                w.edge(&format!("J{}", i), &format!("J{}", j));
            }
        }
    }
    let mut version = vec![0u64; n];
    for round in 0..4 {
        for v in version.iter_mut() {
            if rng.chance(25) {
                *v += 1;
            }
        }
        let fails: Vec<bool> = (0..n).map(|_| rng.chance(12)).collect();
        if round > 0 {
            let ids: Vec<String> = w.present.iter().cloned().collect();
            for id in ids {
                if rng.chance(15) {
                    w.present.remove(&id);
                }
            }
        }
        let abort_after = if rng.chance(8) { Some(rng.below(4)) } else { None };
        c.evaluations += 1;
        let sched_seed = rng.next();
        let res = std::panic::catch_unwind(std::panic::AssertUnwindSafe(|| {
            let mut r = Lcg(sched_seed);
            let (mut g, present) = w.build();
            let mut problems: Vec<String> = vec![];
            let mut executed_ok: HashSet<String> = HashSet::new();
            let mut running: Vec<String> = vec![];
            let mut started: HashSet<String> = HashSet::new();
            let mut events = 0u64;
            if let Err(e) = g.event_startup() {
                problems.push(format!("{:?}", e));
                return (problems, None, present.borrow().clone());
            }
            let mut guard = 0;
            loop {
                guard += 1;
                if guard > 5000 {
                    problems.push("stall: guard".into());
                    break;
                }
                if g.is_finished() {
                    break;
                }
                let mut cl: Vec<String> = g.query_ready_for_cleanup().into_iter().collect();
                cl.sort();
                for x in cl {
                    if r.chance(70) {
                        if let Err(e) = g.event_job_cleanup_done(&x) {
                            problems.push(format!("{:?}", e));
                        }
                    }
                }
                let mut ready: Vec<String> = g.query_ready_to_run().into_iter().collect();
                ready.sort();
                if ready.is_empty() && running.is_empty() {
                    problems.push("stall: not finished, nothing ready, nothing running".into());
                    break;
                }
                if let Some(k) = abort_after {
                    if events >= k {
                        if let Err(e) = g.abort_remaining() {
                            problems.push(format!("{:?}", e));
                        }
                        break;
                    }
                }
                let start = !ready.is_empty() && (running.is_empty() || r.chance(50));
                if start {
                    let j = ready[r.below(ready.len() as u64) as usize].clone();
                    // C02: every Ephemeral direct upstream was executed in this evaluation
                    for (u, d) in &w.edges {
                        if *d == j {
                            let ku = w.nodes.iter().find(|x| x.0 == *u).unwrap().1;
                            if ku == JobKind::Ephemeral && !executed_ok.contains(u) {
                                problems.push(format!("C02: {} offered, ephemeral upstream {} not executed", j, u));
                            }
                        }
                    }
                    if let Err(e) = g.event_now_running(&j) {
                        problems.push(format!("{:?}", e));
                        break;
                    }
                    started.insert(j.clone());
                    running.push(j);
                } else {
                    let k = r.below(running.len() as u64) as usize;
                    let j = running.remove(k);
                    let idx: usize = j[1..].parse().unwrap();
                    events += 1;
                    let res = if fails[idx] {
                        g.event_job_finished_failure(&j)
                    } else {
                        if w.nodes[idx].1 == JobKind::Output {
                            present.borrow_mut().insert(j.clone());
                        }
                        executed_ok.insert(j.clone());
                        g.event_job_finished_success(&j, format!("{}v{}", j, version[idx]))
                    };
                    if let Err(e) = res {
                        let t = format!("{:?}", e);
                        if t.contains("InternalError") {
                            problems.push(t);
                            break;
                        }
                    }
                }
            }
            // C07 between driver calls / at the end (only evaluations that were not aborted): a job that was never started and
            // has a failed or upstream-failed direct upstream is reported upstream-failed (or failed); nobody is upstream-failed
            // without such an upstream
            if g.is_finished() && abort_after.is_none() {
                let failed = g.query_failed();
                let uf = g.query_upstream_failed();
                for (u, d) in &w.edges {
                    if (failed.contains(u) || uf.contains(u)) && !started.contains(d) && !uf.contains(d) && !failed.contains(d) {
                        // exempt: Ephemeral jobs on which only Ephemeral jobs depend
                        if !eph_only_closure(&w, d) {
                            problems.push(format!("C07iso: {} never started, upstream {} failed/upstream-failed, but not reported upstream-failed", d, u));
                        }
                    }
                }
                for d in uf.iter() {
                    if !w.edges.iter().any(|(u, dd)| dd == d && (failed.contains(u) || uf.contains(u))) {
                        problems.push(format!("C07cause: {} upstream-failed without a failed or upstream-failed direct upstream", d));
                    }
                }
            }
            let h = if g.is_finished() {
                match g.new_history() {
                    Ok(h) => Some(h),
                    Err(e) => {
                        problems.push(format!("{:?}", e));
                        None
                    }
                }
            } else {
                None
            };
            let p = present.borrow().clone();
            (problems, h, p)
        }));
        match res {
            Err(_) => {
                c.panics += 1;
                if c.first.len() < 6 {
                    c.first.push(format!("scenario {} round {}: panic", tag, round));
                }
                return;
            }
            Ok((problems, h, p)) => {
                for pr in &problems {
                    if pr.contains("InternalError") {
                        c.internal_errors += 1;
                    } else if pr.starts_with("stall") {
                        c.stalls += 1;
                    } else if pr.starts_with("C02") {
                        c.eph_upstream_not_executed += 1;
                    } else if pr.starts_with("C07iso") {
                        c.c07_isolation += 1;
                    } else if pr.starts_with("C07cause") {
                        c.c07_cause += 1;
                    }
                    if c.first.len() < 6 {
                        c.first.push(format!("scenario {} round {}: {}", tag, round, &pr[..pr.len().min(160)]));
                    }
                }
                w.present = p;
                match h {
                    Some(h) => w.history = h,
                    None => return,
                }
            }
        }
    }
}

fn sanity(n: u64, seed: u64) {
    let mut rng = Lcg(seed);
    let mut c = SanityCounts::default();
    for t in 0..n {
        sanity_one(&mut rng, &mut c, t);
    }
    println!(
        "{{\"sanity\": true, \"scenarios\": {}, \"evaluations\": {}, \"internal_errors\": {}, \"panics\": {}, \"stalls\": {}, \"ephemeral_upstream_not_executed\": {}, \"c07_not_reported_upstream_failed\": {}, \"c07_upstream_failed_without_cause\": {}, \"first\": {:?}}}",
        n, c.evaluations, c.internal_errors, c.panics, c.stalls, c.eph_upstream_not_executed, c.c07_isolation, c.c07_cause, c.first
    );
}

// ---- F9 (C07): an upstream-failure notification that reaches an Ephemeral job skipped earlier is swallowed:
// TF(eph) -> O1 -> E2(eph) -> O3, TF -> S <- P(always, changed).  O1, E2, O3 are skipped early; TF runs and fails.
fn f9() {
    let mut w = World::new();
    w.node("TF", JobKind::Ephemeral).node("O1", JobKind::Output).node("E2", JobKind::Ephemeral).node("O3", JobKind::Output)
        .node("S", JobKind::Output).node("P", JobKind::Always);
    w.edge("TF", "O1").edge("O1", "E2").edge("E2", "O3").edge("TF", "S").edge("P", "S");
    let o1 = w.run(&|j| format!("{}-v1", j), &[]);
    let (mut g, present) = w.build();
    let mut log: Vec<String> = vec![];
    if let Err(e) = g.event_startup() { log.push(format!("startup error {:?}", e)); }
    let mut guard = 0;
    while !g.is_finished() && guard < 100 {
        guard += 1;
        for c in g.query_ready_for_cleanup() { let _ = g.event_job_cleanup_done(&c); }
        let mut ready: Vec<String> = g.query_ready_to_run().into_iter().collect();
        ready.sort();
        if ready.is_empty() { log.push("stall".into()); break; }
        let j = ready[0].clone();
        if g.event_now_running(&j).is_err() { break; }
        log.push(j.clone());
        let r = if j == "TF" { g.event_job_finished_failure(&j) } else {
            let out = if j == "P" { "P-v2".to_string() } else { format!("{}-v1", j) };
            if w.nodes.iter().find(|n| n.0 == j).unwrap().1 == JobKind::Output { present.borrow_mut().insert(j.clone()); }
            g.event_job_finished_success(&j, out)
        };
        if let Err(e) = r { log.push(format!("error {:?}", e)); break; }
    }
    let mut uf: Vec<String> = g.query_upstream_failed().into_iter().collect();
    uf.sort();
    let mut failed: Vec<String> = g.query_failed().into_iter().collect();
    failed.sort();
    // C07: O1, E2, O3 and S were not started and depend on the failed TF (E2 and O3 through O1): all must be upstream-failed
    let want = vec!["E2".to_string(), "O1".to_string(), "O3".to_string(), "S".to_string()];
    let bad = failed == vec!["TF".to_string()] && uf != want;
    report("F9", bad, format!("first run errors {:?}; second evaluation started {:?}; failed {:?}; upstream-failed {:?} (expected {:?}); finished {}",
        o1.errors, log, failed, uf, want, g.is_finished()));
}

// ---- perf (not a check): layered Ephemerals `width` x `depth` above one Output D that also depends on an Always job X,
// with an up-to-date sibling consumer W of the first layer; second evaluation with X changed.  Prints wall time.
fn perf(width: usize, depth: usize) {
    let mut w = World::new();
    for l in 0..depth {
        for k in 0..width {
            w.node(&format!("E{}_{}", l, k), JobKind::Ephemeral);
        }
    }
    w.node("D", JobKind::Output).node("X", JobKind::Always).node("W", JobKind::Output);
    for l in 1..depth {
        for k in 0..width {
            for k2 in 0..width {
                w.edge(&format!("E{}_{}", l - 1, k2), &format!("E{}_{}", l, k));
            }
        }
    }
    for k in 0..width {
        w.edge(&format!("E{}_{}", depth - 1, k), "D");
        w.edge(&format!("E0_{}", k), "W");
    }
    w.edge("X", "D");
    let t0 = std::time::Instant::now();
    let o1 = w.run(&|j| format!("{}-v1", j), &[]);
    let t1 = t0.elapsed();
    let t0 = std::time::Instant::now();
    let o2 = w.run(&|j| if j == "X" { "X-v2".to_string() } else { format!("{}-v1", j) }, &[]);
    let t2 = t0.elapsed();
    println!("perf width={} depth={} first: {:?} started={} errors={:?}; second: {:?} started={} errors={:?}",
        width, depth, t1, o1.started.len(), &o1.errors, t2, o2.started.len(), &o2.errors);
}

fn main() {
    let which: Vec<String> = std::env::args().skip(1).collect();
    if which.first().map(|x| x == "perf").unwrap_or(false) {
        let wd = which.get(1).and_then(|x| x.parse().ok()).unwrap_or(2);
        let dp = which.get(2).and_then(|x| x.parse().ok()).unwrap_or(10);
        perf(wd, dp);
        return;
    }
    if which.first().map(|x| x == "sanity").unwrap_or(false) {
        std::panic::set_hook(Box::new(|_| {}));
        let n = which.get(1).and_then(|x| x.parse().ok()).unwrap_or(1000);
        let seed = which.get(2).and_then(|x| x.parse().ok()).unwrap_or(1);
        sanity(n, seed);
        return;
    }
    let all = which.is_empty();
    let run = |n: &str, f: &dyn Fn()| {
        if all || which.iter().any(|w| w == n) {
            let r = std::panic::catch_unwind(std::panic::AssertUnwindSafe(|| f()));
            if r.is_err() {
                report(n, true, "the engine panicked".to_string());
            }
        }
    };
    std::panic::set_hook(Box::new(|_| {}));
    run("F1", &f1);
    run("F2", &f2);
    run("F3", &f3);
    run("F4", &f4);
    run("F5", &f5);
    run("F8", &f8);
    run("F7", &f7);
    run("F9", &f9);
}
