// Copies the error enum and the strategy trait out of the repository's lib.rs (mechanically, by
// brace matching from their first line) so that the real engine.rs can be compiled here with an
// arbitrary strategy.  Rebuilt whenever the sources change.
use std::{env, fs, path::Path};

fn grab(src: &str, start_pat: &str) -> String {
    let i = src.find(start_pat).unwrap_or_else(|| panic!("pattern {:?} not found in lib.rs", start_pat));
    // include attribute lines directly above
    let mut a = i;
    loop {
        let before = &src[..a];
        let line_start = before.trim_end_matches('\n').rfind('\n').map(|x| x + 1).unwrap_or(0);
        let line = &src[line_start..a];
        if line.trim_start().starts_with("#[") && a > 0 {
            a = line_start;
        } else {
            break;
        }
    }
    let mut depth = 0i32;
    let mut end = i;
    for (k, c) in src[i..].char_indices() {
        if c == '{' {
            depth += 1;
        } else if c == '}' {
            depth -= 1;
            if depth == 0 {
                end = i + k + 1;
                break;
            }
        }
    }
    src[a..end].to_string()
}

fn main() {
    let repo = env::var("VERIF_REPO").unwrap_or_else(|_| "/repo".to_string());
    let lib = fs::read_to_string(format!("{}/src/lib.rs", repo)).unwrap();
    let mut out = String::new();
    out.push_str("use thiserror::Error;\n");
    out.push_str(&grab(&lib, "pub enum PPGEvaluatorError"));
    out.push_str("\n");
    out.push_str(&grab(&lib, "pub trait PPGEvaluatorStrategy"));
    out.push_str("\n");
    let dst = Path::new(&env::var("OUT_DIR").unwrap()).join("from_lib.rs");
    fs::write(&dst, out).unwrap();
    let eng = format!("{}/src/engine.rs", repo);
    let dst2 = Path::new(&env::var("OUT_DIR").unwrap()).join("engine_path.rs");
    fs::write(&dst2, format!("#[path = \"{}\"]\n#[allow(dead_code, unused)]\nmod engine;\n", eng)).unwrap();
    println!("cargo:rerun-if-changed={}/src/lib.rs", repo);
    println!("cargo:rerun-if-changed={}", eng);
    println!("cargo:rerun-if-env-changed=VERIF_REPO");
}
